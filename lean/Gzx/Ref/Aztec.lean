/-
  Reference Aztec Code ENCODER, written from ISO/IEC 24778 (not from the Go decoder).

  gozxing has no Aztec writer; this file is the single reference the C11 property is judged
  against (the Go harness obtains symbols from the Lean driver, `c11 ref ...`).

  Contents
    §1 bit helpers
    §2 the five code tables (Upper, Lower, Mixed, Punct, Digit) typed from the standard's table
    §3 scripted high-level encoder (latches, shifts, two-byte punct codes, binary shift short/long,
       FLG(n)) and a simple greedy text -> script encoder
    §4 bit stuffing into 6/8/10/12-bit codewords, padding of the last codeword
    §5 GF(2^m) arithmetic + systematic Reed-Solomon parity (roots alpha^1..alpha^n)
    §6 mode message (compact 2+6 bits -> 28 bits, full 5+11 bits -> 40 bits, RS over GF(16))
    §7 (file Gzx/Ref/AztecLayout.lean) symbol layout: per-cell description of the symbol (bull's eye, orientation marks, mode
       message ring, reference grid, 2-module-wide data layers spiralling counter-clockwise from
       the top-left corner of the outermost layer)
    §8 whole encoder

  Core Lean only; executable.  `getD`/Array indexing are allowed here (reference code, not `Model/`).
-/
import Gzx.Util
import Gzx.Ref.AztecLayout
namespace Gzx.Ref.Aztec

/-! ## §1 bits -/

/-- `w` bits of `n`, most significant first -/
def toBits : Nat → Nat → List Bool
  | 0, _ => []
  | w + 1, n => toBits w (n / 2) ++ [n % 2 == 1]

/-- value of a bit string, most significant first -/
def fromBits (bs : List Bool) : Nat := bs.foldl (fun acc b => 2 * acc + (if b then 1 else 0)) 0

/-! ## §2 code tables (ISO/IEC 24778 Table "character encodation") -/

inductive Mode where
  | upper | lower | mixed | punct | digit
  deriving DecidableEq, Repr, Inhabited

/-- one cell of the code table -/
inductive Entry where
  | lit (bytes : List Nat)     -- one byte, or one of the four two-byte punctuation codes
  | latch (m : Mode)           -- x/L
  | shift (m : Mode)           -- x/S : the next single code is taken from table m
  | bshift                     -- B/S
  | flg                        -- FLG(n)
  deriving DecidableEq, Repr, Inhabited

open Mode Entry

/-- Upper: 0 P/S, 1 SP, 2..27 'A'..'Z', 28 L/L, 29 M/L, 30 D/L, 31 B/S -/
def upperTable : List Entry :=
  [shift punct, lit [32]] ++ (List.range 26).map (fun i => lit [65 + i]) ++
  [latch lower, latch mixed, latch digit, bshift]

/-- Lower: 0 P/S, 1 SP, 2..27 'a'..'z', 28 U/S, 29 M/L, 30 D/L, 31 B/S -/
def lowerTable : List Entry :=
  [shift punct, lit [32]] ++ (List.range 26).map (fun i => lit [97 + i]) ++
  [shift upper, latch mixed, latch digit, bshift]

/-- Mixed: 0 P/S, 1 SP, 2..14 ^A..^M, 15..19 ESC FS GS RS US, 20 @, 21 \, 22 ^, 23 _, 24 `,
    25 |, 26 ~, 27 DEL, 28 L/L, 29 U/L, 30 P/L, 31 B/S -/
def mixedTable : List Entry :=
  [shift punct, lit [32]] ++ (List.range 13).map (fun i => lit [1 + i]) ++
  [lit [27], lit [28], lit [29], lit [30], lit [31],
   lit [64], lit [92], lit [94], lit [95], lit [96], lit [124], lit [126], lit [127],
   latch lower, latch upper, latch punct, bshift]

/-- Punct: 0 FLG(n), 1 CR, 2 CR LF, 3 ". ", 4 ", ", 5 ": ", 6 ! 7 " 8 # 9 $ 10 % 11 & 12 ' 13 ( 14 )
    15 * 16 + 17 , 18 - 19 . 20 / 21 : 22 ; 23 < 24 = 25 > 26 ? 27 [ 28 ] 29 { 30 } 31 U/L -/
def punctTable : List Entry :=
  [flg, lit [13], lit [13, 10], lit [46, 32], lit [44, 32], lit [58, 32]] ++
  (List.range 15).map (fun i => lit [33 + i]) ++          -- ! .. /
  (List.range 6).map (fun i => lit [58 + i]) ++           -- : ; < = > ?
  [lit [91], lit [93], lit [123], lit [125], latch upper]

/-- Digit (4-bit codes): 0 P/S, 1 SP, 2..11 '0'..'9', 12 ',', 13 '.', 14 U/L, 15 U/S -/
def digitTable : List Entry :=
  [shift punct, lit [32]] ++ (List.range 10).map (fun i => lit [48 + i]) ++
  [lit [44], lit [46], latch upper, shift upper]

def tableOf : Mode → List Entry
  | upper => upperTable
  | lower => lowerTable
  | mixed => mixedTable
  | punct => punctTable
  | digit => digitTable

/-- code width: 4 bits in Digit mode, 5 bits elsewhere -/
def width : Mode → Nat
  | digit => 4
  | _ => 5

/-- index of the first occurrence of an entry -/
def findCode (t : List Entry) (e : Entry) : Option Nat :=
  let i := t.findIdx (· == e)
  if i < t.length then some i else none

/-! ## §3 high-level encoding

A *script* dictates the code sequence; the encoder checks that every step is available in the
current mode and produces the bit string.  `Op.ch c` is "literal code `c` of the current table". -/

inductive Op where
  | ch (code : Nat)                        -- literal entry of the current mode
  | latch (m : Mode)                       -- x/L available in the current mode
  | sh (m : Mode) (code : Nat)             -- x/S then one literal code of table m
  | bin (bytes : List Nat)                 -- B/S + length (5 bits, or 0 + 11 bits) + bytes
  | flg (n : Nat) (digits : List Nat)      -- FLG(n) (current mode Punct); n = 0 FNC1, 1..6 ECI digits
  | shFlg (n : Nat) (digits : List Nat)    -- P/S FLG(n)
  deriving DecidableEq, Repr, Inhabited

def bytesBits (bs : List Nat) : List Bool := bs.flatMap (toBits 8)

/-- FLG(n) payload: 3 bits n, then n decimal digits in Digit-table codes (digit d -> code d+2) -/
def flgBits (n : Nat) (digits : List Nat) : Option (List Bool) :=
  if n ≤ 6 ∧ digits.length = n ∧ digits.all (· < 10) then
    some (toBits 3 n ++ digits.flatMap (fun d => toBits 4 (d + 2)))
  else none

/-- bits of one op in mode `m`, and the mode afterwards -/
def encodeOp (m : Mode) : Op → Option (List Bool × Mode)
  | .ch c =>
    match (tableOf m)[c]? with
    | some (lit _) => some (toBits (width m) c, m)
    | _ => none
  | .latch m' =>
    (findCode (tableOf m) (latch m')).map (fun c => (toBits (width m) c, m'))
  | .sh m' c =>
    match findCode (tableOf m) (shift m'), (tableOf m')[c]? with
    | some s, some (lit _) => some (toBits (width m) s ++ toBits (width m') c, m)
    | _, _ => none
  | .bin bytes =>
    match findCode (tableOf m) bshift with
    | none => none
    | some s =>
      let n := bytes.length
      if ¬ bytes.all (· < 256) then none
      else if 1 ≤ n ∧ n ≤ 31 then some (toBits (width m) s ++ toBits 5 n ++ bytesBits bytes, m)
      else if 32 ≤ n ∧ n ≤ 2078 then
        some (toBits (width m) s ++ toBits 5 0 ++ toBits 11 (n - 31) ++ bytesBits bytes, m)
      else none
  | .flg n ds =>
    match findCode (tableOf m) flg, flgBits n ds with
    | some c, some p => some (toBits (width m) c ++ p, m)
    | _, _ => none
  | .shFlg n ds =>
    match findCode (tableOf m) (shift punct), findCode punctTable flg, flgBits n ds with
    | some s, some c, some p => some (toBits (width m) s ++ toBits 5 c ++ p, m)
    | _, _, _ => none

/-- encode a script starting in mode `m` (a symbol starts in Upper) -/
def encodeScript : Mode → List Op → Option (List Bool)
  | _, [] => some []
  | m, op :: ops =>
    match encodeOp m op with
    | none => none
    | some (b, m') => (encodeScript m' ops).map (b ++ ·)

/-- what a script means: data bytes, FNC1 marks and ECI switches, in order -/
inductive Item where
  | bytes (bs : List Nat)
  | fnc1
  | eci (n : Nat)
  deriving DecidableEq, Repr, Inhabited

def digitsVal (ds : List Nat) : Nat := ds.foldl (fun a d => 10 * a + d) 0

def opItems (m : Mode) : Op → List Item
  | .ch c => match (tableOf m)[c]? with
    | some (lit bs) => [.bytes bs]
    | _ => []
  | .latch _ => []
  | .sh m' c => match (tableOf m')[c]? with
    | some (lit bs) => [.bytes bs]
    | _ => []
  | .bin bs => [.bytes bs]
  | .flg n ds | .shFlg n ds => if n = 0 then [.fnc1] else [.eci (digitsVal ds)]

def opMode (m : Mode) : Op → Mode
  | .latch m' => m'
  | _ => m

def scriptItems : Mode → List Op → List Item
  | _, [] => []
  | m, op :: ops => opItems m op ++ scriptItems (opMode m op) ops

/-- the data bytes of a script (FNC1 / ECI marks dropped) -/
def itemsBytes (is : List Item) : List Nat :=
  is.flatMap (fun | .bytes bs => bs | _ => [])

/-! ### greedy text -> script (correct, not optimal) -/

def litCode? (m : Mode) (bs : List Nat) : Option Nat := findCode (tableOf m) (lit bs)

/-- latch sequence from one non-Punct mode to another -/
def latchPath : Mode → Mode → List Mode
  | upper, lower => [lower] | upper, mixed => [mixed] | upper, digit => [digit]
  | lower, upper => [digit, upper] | lower, mixed => [mixed] | lower, digit => [digit]
  | mixed, upper => [upper] | mixed, lower => [lower] | mixed, digit => [upper, digit]
  | digit, upper => [upper] | digit, lower => [upper, lower] | digit, mixed => [upper, mixed]
  | upper, punct => [mixed, punct] | lower, punct => [mixed, punct] | mixed, punct => [punct]
  | digit, punct => [upper, mixed, punct]
  | punct, upper => [upper] | punct, lower => [upper, lower] | punct, mixed => [upper, mixed]
  | punct, digit => [upper, digit]
  | _, _ => []

/-- first of Upper, Lower, Digit, Mixed holding the byte -/
def homeMode? (b : Nat) : Option Mode :=
  [upper, lower, digit, mixed].find? (fun m => (litCode? m [b]).isSome)

def inAnyTable (b : Nat) : Bool :=
  (homeMode? b).isSome || (litCode? punct [b]).isSome

/-- longest prefix (at most `cap`) of bytes that are in no table -/
def binRun : Nat → List Nat → List Nat
  | 0, _ => []
  | _, [] => []
  | cap + 1, b :: bs => if inAnyTable b then [] else b :: binRun cap bs

/-- greedy encoder; the mode is never Punct (punctuation goes through P/S) -/
def greedyAux : Nat → Mode → List Nat → List Op
  | 0, _, _ => []
  | _, _, [] => []
  | fuel + 1, m, b :: rest =>
    -- 1. two-byte punctuation codes
    match (match rest with
           | b2 :: rest2 => (litCode? punct [b, b2]).map (fun c => (c, rest2))
           | [] => none) with
    | some (c, rest2) => .sh punct c :: greedyAux fuel m rest2
    | none =>
    -- 2. the current table
    match litCode? m [b] with
    | some c => .ch c :: greedyAux fuel m rest
    | none =>
    -- 3. single punctuation by P/S
    match litCode? punct [b] with
    | some c => .sh punct c :: greedyAux fuel m rest
    | none =>
    -- 4. latch to a table holding it
    match homeMode? b with
    | some t =>
      match litCode? t [b] with
      | some c => (latchPath m t).map .latch ++ (.ch c :: greedyAux fuel t rest)
      | none => []
    | none =>
    -- 5. binary shift (only from Upper/Lower/Mixed: leave Digit first)
    let run := b :: binRun 2077 rest
    let pre := if m = digit then [Op.latch upper] else []
    let m' := if m = digit then upper else m
    pre ++ (.bin run :: greedyAux fuel m' (rest.drop (run.length - 1)))

def greedy (text : List Nat) : List Op := greedyAux (text.length + 1) upper text

/-! ## §4 bit stuffing

The bit string is cut into `b`-bit codewords.  Whenever the first `b-1` bits of a codeword are all
equal, a complementary bit is inserted as the last bit (so no codeword is all-0 or all-1).  The last
codeword is padded with 1s (and, if that makes it all-1, its last bit is the stuffed 0). -/

def stuffAux (b : Nat) : Nat → List Bool → List (List Bool)
  | 0, _ => []
  | _, [] => []
  | fuel + 1, bits =>
    let head := bits.take (b - 1)
    let padded := head ++ List.replicate (b - 1 - head.length) true
    if padded.all (· == true) then (padded ++ [false]) :: stuffAux b fuel (bits.drop (b - 1))
    else if padded.all (· == false) then (padded ++ [true]) :: stuffAux b fuel (bits.drop (b - 1))
    else
      let nxt := ((bits.drop (b - 1)).head?).getD true
      (padded ++ [nxt]) :: stuffAux b fuel (bits.drop b)

/-- codewords (as bit lists) of a message; an empty message still occupies one (pad) codeword -/
def stuffWords (b : Nat) (bits : List Bool) : List (List Bool) :=
  if bits.isEmpty then [List.replicate (b - 1) true ++ [false]]
  else stuffAux b (bits.length + 1) bits

/-! ## §5 GF(2^m) and Reed-Solomon parity -/

/-- primitive polynomial by codeword size: GF(16) x^4+x+1, GF(64) x^6+x+1, GF(256) x^8+x^5+x^3+x^2+1,
    GF(1024) x^10+x^3+1, GF(4096) x^12+x^6+x^5+x^3+1 -/
def primPoly : Nat → Nat
  | 4 => 0x13
  | 6 => 0x43
  | 8 => 0x12D
  | 10 => 0x409
  | 12 => 0x1069
  | _ => 0

def gfMulAux (poly size : Nat) : Nat → Nat → Nat → Nat → Nat
  | 0, _, _, acc => acc
  | fuel + 1, a, b, acc =>
    let acc := if b % 2 == 1 then acc ^^^ a else acc
    let a2 := a * 2
    let a2 := if a2 ≥ size then a2 ^^^ poly else a2
    gfMulAux poly size fuel a2 (b / 2) acc

/-- multiplication in GF(2^w) -/
def gfMul (w a b : Nat) : Nat := gfMulAux (primPoly w) (2 ^ w) w a b 0

/-- alpha^k, alpha = 2 -/
def gfPow2 (w : Nat) : Nat → Nat
  | 0 => 1
  | k + 1 => gfMul w 2 (gfPow2 w k)

/-- exp/log tables of GF(2^w), built with `gfMul` by repeated multiplication with alpha = 2
    (an executable device: `GF.mul` computes the same product as `gfMul`) -/
structure GF where
  w : Nat
  exp : Array Nat
  log : Array Nat

def GF.make (w : Nat) : GF :=
  let size := 2 ^ w
  let exp := ((List.range (size - 1)).foldl (fun (p : Array Nat × Nat) _ =>
      (p.1.push p.2, gfMul w p.2 2)) (#[], 1)).1
  let log := (List.range (size - 1)).foldl (fun (l : Array Nat) i => l.setIfInBounds (exp.getD i 0) i)
      (Array.replicate size 0)
  ⟨w, exp, log⟩

def GF.mul (g : GF) (a b : Nat) : Nat :=
  if a = 0 ∨ b = 0 then 0
  else g.exp.getD ((g.log.getD a 0 + g.log.getD b 0) % (2 ^ g.w - 1)) 0

/-- multiply a polynomial (highest degree first, as an Array) by (x + r) -/
def polyMulLin (gf : GF) (g : Array Nat) (r : Nat) : Array Nat :=
  let n := g.size
  (Array.range (n + 1)).map (fun i =>
    let hi := if i < n then g.getD i 0 else 0            -- g_i * x
    let lo := if i ≥ 1 then gf.mul (g.getD (i - 1) 0) r else 0
    hi ^^^ lo)

/-- generator polynomial (x - alpha^1)...(x - alpha^n), monic, highest degree first -/
def genPoly (gf : GF) (n : Nat) : Array Nat :=
  (List.range n).foldl (fun g i => polyMulLin gf g (gf.exp.getD ((i + 1) % (2 ^ gf.w - 1)) 1)) #[1]

/-- remainder of data(x) * x^n modulo the generator: the n check words -/
def rsParity (w n : Nat) (data : List Nat) : List Nat :=
  let gf := GF.make w
  let g := genPoly gf n              -- size n+1, g[0] = 1
  let gl := (g.toList.drop 1)        -- n coefficients below the leading one
  let rem := data.foldl (fun (rem : List Nat) d =>
      -- rem has n entries; feedback = d + rem[0]
      let fb := d ^^^ rem.headD 0
      let shifted := rem.drop 1 ++ [0]
      List.zipWith (fun r gc => r ^^^ gf.mul fb gc) shifted gl) (List.replicate n 0)
  rem

/-! ## §6 mode message -/

/-- compact: layers-1 in 2 bits, datawords-1 in 6 bits, + 5 check nibbles = 28 bits;
    full-range: layers-1 in 5 bits, datawords-1 in 11 bits, + 6 check nibbles = 40 bits -/
def modeMessage (compact : Bool) (layers dataWords : Nat) : List Bool :=
  let hdr := if compact then toBits 2 (layers - 1) ++ toBits 6 (dataWords - 1)
             else toBits 5 (layers - 1) ++ toBits 11 (dataWords - 1)
  let nib := if compact then [fromBits (hdr.take 4), fromBits (hdr.drop 4)]
             else [fromBits (hdr.take 4), fromBits ((hdr.drop 4).take 4),
                   fromBits ((hdr.drop 8).take 4), fromBits (hdr.drop 12)]
  let chk := rsParity 4 (if compact then 5 else 6) nib
  (nib ++ chk).flatMap (toBits 4)

/-! ## §8 whole encoder -/

structure Symbol where
  compact : Bool
  layers : Nat
  hlBits : List Bool          -- high-level bits
  dataWords : List Nat        -- stuffed data codewords
  checkWords : List Nat
  modeMsg : List Bool
  stream : List Bool          -- data-region bit stream
  matrix : List (List Bool)
  deriving Inhabited

inductive EncErr where
  | badScript | badLayers | tooLong | internal
  deriving DecidableEq, Repr

/-- not one of the 36 sizes -/
def badLayers (compact : Bool) (layers : Nat) : Bool :=
  layers == 0 || (compact && decide (layers > 4)) || decide (layers > 32)

/-- the data codewords (plus the demanded minimum of check words) do not fit the size, or their
    number does not fit the mode message field (6 bits compact, 11 bits full-range) -/
def tooLong (compact : Bool) (nWords dataWords minCheck : Nat) : Bool :=
  decide (dataWords + minCheck > nWords) || decide (dataWords > (if compact then 64 else 2048))

/-- self-check of the Reed-Solomon step's output shape (never true; makes the shape a
    hypothesis-free fact for the theorems) -/
def badShape (b nchk : Nat) (chk : List Nat) : Bool :=
  chk.length != nchk || !chk.all (· < 2 ^ b)

/-- build the symbol for high-level bits in a given size.  All capacity beyond the data codewords
    is Reed-Solomon check words; at least `minCheck` check words are required. -/
def encodeBits (compact : Bool) (layers : Nat) (hl : List Bool) (minCheck : Nat := 3) :
    Except EncErr Symbol :=
  if badLayers compact layers then .error .badLayers else
  let b := wordSize layers
  let words := (stuffWords b hl).map fromBits
  let total := totalBits compact layers
  let nWords := total / b
  if tooLong compact nWords words.length minCheck then .error .tooLong else
  let chk := rsParity b (nWords - words.length) words
  if badShape b (nWords - words.length) chk then .error .internal else
  let stream := List.replicate (total % b) false ++ (words ++ chk).flatMap (toBits b)
  let mm := modeMessage compact layers words.length
  .ok { compact, layers, hlBits := hl, dataWords := words, checkWords := chk, modeMsg := mm,
        stream, matrix := layout compact layers stream mm }

def encodeOps (compact : Bool) (layers : Nat) (ops : List Op) (minCheck : Nat := 3) :
    Except EncErr Symbol :=
  match encodeScript upper ops with
  | none => .error .badScript
  | some hl => encodeBits compact layers hl minCheck

def encodeText (compact : Bool) (layers : Nat) (text : List Nat) (minCheck : Nat := 3) :
    Except EncErr Symbol :=
  encodeOps compact layers (greedy text) minCheck

/-- the 32 full-range sizes of the standard -/
example : (List.range 32).map (fun i => symbolSize false (i + 1)) =
    [19, 23, 27, 31, 37, 41, 45, 49, 53, 57, 61, 67, 71, 75, 79, 83, 87, 91, 95, 101, 105, 109,
     113, 117, 121, 125, 131, 135, 139, 143, 147, 151] := by decide

/-- the 4 compact sizes -/
example : (List.range 4).map (fun i => symbolSize true (i + 1)) = [15, 19, 23, 27] := by decide

end Gzx.Ref.Aztec
