/-
  Reference Aztec Code symbol LAYOUT, written from ISO/IEC 24778 (part of the reference encoder
  Gzx.Ref.Aztec; a separate file so that the per-size kernel checks of the layout only depend on it).

  Per-cell description of the symbol: bull's eye, orientation marks, mode message ring, reference
  grid of full-range symbols, 2-module-wide data layers spiralling counter-clockwise from the
  top-left corner of the outermost layer.
-/
namespace Gzx.Ref.Aztec

/-! ## §7 layout -/

/-- codeword size by layer count -/
def wordSize (layers : Nat) : Nat :=
  if layers ≤ 2 then 6 else if layers ≤ 8 then 8 else if layers ≤ 22 then 10 else 12

/-- data-region capacity in bits -/
def totalBits (compact : Bool) (layers : Nat) : Nat :=
  ((if compact then 88 else 112) + 16 * layers) * layers

/-- half-width of the symbol without reference-grid lines, measured from the centre:
    compact: 5 (core) + 2 per layer; full: 7 (core) + 2 per layer -/
def halfBase (compact : Bool) (layers : Nat) : Nat := (if compact then 5 else 7) + 2 * layers

/-- side length in modules: compact 11+4L; full 15+4L plus the reference-grid lines that fall
    inside (one every 16 modules from the centre on each side) -/
def symbolSize (compact : Bool) (layers : Nat) : Nat :=
  let h := halfBase compact layers
  if compact then 2 * h + 1 else 2 * (h + (h - 1) / 15) + 1

/-- what a module of the symbol is -/
inductive Cell where
  | dark | light
  | mode (i : Nat)     -- bit i of the mode message
  | data (i : Nat)     -- bit i of the data stream (leading pad bits + codewords, MSB first)
  deriving DecidableEq, Repr, Inhabited

def absDiff (a b : Nat) : Nat := if a ≥ b then a - b else b - a

/-- position along a mode-message side, counted in the direction of increasing coordinate:
    compact -3..3 -> 0..6; full -5..-1, 1..5 -> 0..9 (0 is a reference-grid module) -/
def along (compact : Bool) (neg : Bool) (a : Nat) : Nat :=
  if compact then (if neg then 3 - a else 3 + a) else (if neg then 5 - a else 4 + a)

/-- the module at column `x`, row `y` (0,0 = top-left) -/
def cellAt (compact : Bool) (layers x y : Nat) : Cell :=
  let size := symbolSize compact layers
  let c := size / 2
  let ax := absDiff x c
  let ay := absDiff y c
  let R := if compact then 5 else 7
  let r := max ax ay
  -- reference grid of full-range symbols: rows/columns at multiples of 16 from the centre,
  -- alternating with the centre module dark
  if !compact && (ax % 16 == 0 || ay % 16 == 0) then
    (if (ax + ay) % 2 == 0 then .dark else .light)
  else if r < R then
    -- bull's eye: concentric square rings, dark at even distance
    (if r % 2 == 0 then .dark else .light)
  else if r == R then
    -- the ring around the bull's eye: orientation marks at the corners, mode message between
    let xneg := x < c
    let yneg := y < c
    if ax ≥ R - 1 && ay ≥ R - 1 then
      -- orientation: top-left 3 dark, top-right 2 dark, bottom-right 1 dark, bottom-left none
      if xneg && yneg then .dark
      else if !xneg && yneg then (if ax == R then .dark else .light)
      else if !xneg && !yneg then (if ax == R && ay == R - 1 then .dark else .light)
      else .light
    else
      let S := if compact then 7 else 10
      -- clockwise from the top-left: top row left->right, right column top->bottom,
      -- bottom row right->left, left column bottom->top
      if ay == R && yneg then .mode (along compact xneg ax)
      else if ax == R && !xneg then .mode (S + along compact yneg ay)
      else if ay == R && !yneg then .mode (2 * S + (S - 1 - along compact xneg ax))
      else .mode (3 * S + (S - 1 - along compact yneg ay))
  else
    -- data layers.  Coordinates with the reference-grid lines removed ("base" coordinates 0..B-1)
    let H := halfBase compact layers
    let B := if compact then 2 * H + 1 else 2 * H
    let bx := if compact then x else (if x > c then H + (ax - ax / 16) - 1 else H - (ax - ax / 16))
    let by' := if compact then y else (if y > c then H + (ay - ay / 16) - 1 else H - (ay - ay / 16))
    -- layer index counted from the outside, two modules per layer
    let i := (min (min bx by') (min (B - 1 - bx) (B - 1 - by'))) / 2
    let low := 2 * i
    let high := B - 1 - 2 * i
    let rowSize := high - low - 1           -- dominoes per side
    let off := 8 * i * (B - 2 * i)          -- bits in the layers further out
    -- pinwheel: left side downwards, bottom side rightwards, right side upwards, top side leftwards;
    -- within a domino the outer module comes first
    if bx ≤ low + 1 && by' ≤ high - 2 then .data (off + 2 * (by' - low) + (bx - low))
    else if by' ≥ high - 1 && bx ≤ high - 2 then .data (off + 2 * rowSize + 2 * (bx - low) + (high - by'))
    else if bx ≥ high - 1 && by' ≥ low + 2 then .data (off + 4 * rowSize + 2 * (high - by') + (high - bx))
    else .data (off + 6 * rowSize + 2 * (high - bx) + (by' - low))

def cellValue (stream mode : Array Bool) : Cell → Bool
  | .dark => true
  | .light => false
  | .mode i => mode[i]?.getD false
  | .data i => stream[i]?.getD false

/-- the symbol as rows of modules (true = dark) -/
def layout (compact : Bool) (layers : Nat) (stream mode : List Bool) : List (List Bool) :=
  let size := symbolSize compact layers
  let sa := stream.toArray
  let ma := mode.toArray
  (List.range size).map (fun y => (List.range size).map (fun x =>
    cellValue sa ma (cellAt compact layers x y)))

end Gzx.Ref.Aztec
