/-
  C18 — the REVIEWED lists of effects the library is allowed to have on shared and instance state, as Lean data.

  Source of truth: the text files corpus/C18/*.txt and corpus/purity/allowed-instance-writes.txt (entries with
  their review reasons).  This file is their image under `harness/cmd/c18effects -emit-ref` and is committed;
  `Obligations.C18.ref_*_eq_corpus` prove on every run (kernel) that it equals what the generator parses from
  the text files of that run, so the harness (which reads the text) and the theorems (which read this file)
  cannot drift apart.  After a REVIEWED change of a corpus file regenerate:
    cd harness && go run ./cmd/c18effects -corpus ../corpus -emit-ref ../lean/Gzx/Ref/C18Allowed.lean

  Names are Nat codes (big-endian base-256 number of the UTF-8 bytes); the text is in the comment beside each.
-/
namespace Gzx.Ref.C18Allowed

/-- reviewed run-time writes of package-level state (function, variable) — C18/allowed-shared-writes.txt -/
def sharedWrites : List (Nat × Nat) := [
  (0x636f6d6d6f6e2e4772696453616d706c65725f5365744772696453616d706c6572, 0x636f6d6d6f6e2e6772696453616d706c6572)  -- common.GridSampler_SetGridSampler -> common.gridSampler
]

/-- reviewed stores of a reference to package-level state into an object (function, variable) — C18/allowed-global-escapes.txt -/
def escapes : List (Nat × Nat) := []

/-- reviewed writes, after construction, of a field of a type of which a shared instance exists (function, type.field) — C18/allowed-shared-type-writes.txt -/
def sharedTypeWrites : List (Nat × Nat) := []

/-- reviewed uses of package sync / sync/atomic (declaration, sync.X) — lazily initialised or locked state — C18/allowed-sync-uses.txt -/
def syncUses : List (Nat × Nat) := []

/-- reviewed functions of the library that start goroutines — C18/allowed-go-stmts.txt -/
def goStmts : List Nat := []

/-- reviewed functions of the library that use channels — C18/allowed-chan-ops.txt -/
def chanOps : List Nat := []

/-- reviewed instance fields written after construction (type.field) — purity/allowed-instance-writes.txt -/
def instanceWrites : List Nat := [
  0x6f6e65642f7273732e506169722e636f756e74,  -- oned/rss.Pair.count
  0x676f7a78696e672e42697441727261792e62697473,  -- gozxing.BitArray.bits
  0x676f7a78696e672e42697441727261792e73697a65,  -- gozxing.BitArray.size
  0x676f7a78696e672e4269744d61747269782e62697473,  -- gozxing.BitMatrix.bits
  0x676f7a78696e672e4269744d61747269782e7769647468,  -- gozxing.BitMatrix.width
  0x676f7a78696e672e4269744d61747269782e686569676874,  -- gozxing.BitMatrix.height
  0x676f7a78696e672e4269744d61747269782e726f7753697a65,  -- gozxing.BitMatrix.rowSize
  0x636f6d6d6f6e2e426974536f757263652e6269744f6666736574,  -- common.BitSource.bitOffset
  0x636f6d6d6f6e2e4465636f646572526573756c742e6f74686572,  -- common.DecoderResult.other
  0x7172636f64652f656e636f6465722e5152436f64652e6d6f6465,  -- qrcode/encoder.QRCode.mode
  0x617a7465632f6465636f6465722e4465636f6465722e6464617461,  -- aztec/decoder.Decoder.ddata
  0x636f6d6d6f6e2e426974536f757263652e627974654f6666736574,  -- common.BitSource.byteOffset
  0x676f7a78696e672e42696e6172794269746d61702e6d6174726978,  -- gozxing.BinaryBitmap.matrix
  0x676f7a78696e672e526573756c742e726573756c74506f696e7473,  -- gozxing.Result.resultPoints
  0x6f6e65642e636f64616261725265616465722e636f756e74657273,  -- oned.codabarReader.counters
  0x6f6e65642e757063415265616465722e65616e3133526561646572,  -- oned.upcAReader.ean13Reader
  0x636f6d6d6f6e2e4465636f646572526573756c742e6e756d42697473,  -- common.DecoderResult.numBits
  0x7172636f64652f656e636f6465722e5152436f64652e6d6174726978,  -- qrcode/encoder.QRCode.matrix
  0x617a7465632f6465746563746f722e4465746563746f722e7368696674,  -- aztec/detector.Detector.shift
  0x636f6d6d6f6e2e4465636f646572526573756c742e6572617375726573,  -- common.DecoderResult.erasures
  0x676f7a78696e672e526573756c742e726573756c744d65746164617461,  -- gozxing.Result.resultMetadata
  0x7172636f64652f656e636f6465722e5152436f64652e65634c6576656c,  -- qrcode/encoder.QRCode.ecLevel
  0x7172636f64652f656e636f6465722e5152436f64652e76657273696f6e,  -- qrcode/encoder.QRCode.version
  0x676f7a78696e672e48796272696442696e6172697a65722e6d6174726978,  -- gozxing.HybridBinarizer.matrix
  0x6f6e65642e6974665265616465722e6e6172726f774c696e655769647468,  -- oned.itfReader.narrowLineWidth
  0x617a7465632f6465746563746f722e4465746563746f722e636f6d70616374,  -- aztec/detector.Detector.compact
  0x7172636f64652f656e636f6465722e427974654d61747269782e6279746573,  -- qrcode/encoder.ByteMatrix.bytes
  0x617a7465632f6465746563746f722e4465746563746f722e6e624c6179657273,  -- aztec/detector.Detector.nbLayers
  0x6f6e65642e636f64616261725265616465722e636f756e7465724c656e677468,  -- oned.codabarReader.counterLength
  0x6f6e65642e75706365616e5265616465722e657874656e73696f6e526561646572,  -- oned.upceanReader.extensionReader
  0x7172636f64652f656e636f6465722e5152436f64652e6d61736b5061747465726e,  -- qrcode/encoder.QRCode.maskPattern
  0x6f6e65642e636f64616261725265616465722e6465636f6465526f77526573756c74,  -- oned.codabarReader.decodeRowResult
  0x617a7465632f6465746563746f722e4465746563746f722e6e6244617461426c6f636b73,  -- aztec/detector.Detector.nbDataBlocks
  0x636f6d6d6f6e2e4465636f646572526573756c742e6572726f7273436f72726563746564,  -- common.DecoderResult.errorsCorrected
  0x646174616d61747269782f656e636f6465722e456e636f646572436f6e746578742e706f73,  -- datamatrix/encoder.EncoderContext.pos
  0x7172636f64652f6465636f6465722e4269744d61747269785061727365722e6d6972726f72,  -- qrcode/decoder.BitMatrixParser.mirror
  0x617a7465632f6465746563746f722e4465746563746f722e6e6243656e7465724c6179657273,  -- aztec/detector.Detector.nbCenterLayers
  0x6f6e65642e55504345414e457874656e73696f6e537570706f72742e74776f537570706f7274,  -- oned.UPCEANExtensionSupport.twoSupport
  0x6f6e65642f7273732e72737331345265616465722e706f737369626c654c6566745061697273,  -- oned/rss.rss14Reader.possibleLeftPairs
  0x646174616d61747269782f656e636f6465722e456e636f646572436f6e746578742e7368617065,  -- datamatrix/encoder.EncoderContext.shape
  0x6f6e65642e55504345414e457874656e73696f6e537570706f72742e66697665537570706f7274,  -- oned.UPCEANExtensionSupport.fiveSupport
  0x6f6e65642e75706365616e5265616465722e6465636f6465526f77537472696e67427566666572,  -- oned.upceanReader.decodeRowStringBuffer
  0x6f6e65642f7273732e72737331345265616465722e706f737369626c6552696768745061697273,  -- oned/rss.rss14Reader.possibleRightPairs
  0x646174616d61747269782f656e636f6465722e44656661756c74506c6163656d656e742e62697473,  -- datamatrix/encoder.DefaultPlacement.bits
  0x676f7a78696e672e476c6f62616c486973746f6772616d42696e6172697a65722e6275636b657473,  -- gozxing.GlobalHistogramBinarizer.buckets
  0x7172636f64652f6465636f6465722e4269744d61747269785061727365722e6269744d6174726978,  -- qrcode/decoder.BitMatrixParser.bitMatrix
  0x646174616d61747269782f656e636f6465722e456e636f646572436f6e746578742e6d617853697a65,  -- datamatrix/encoder.EncoderContext.maxSize
  0x646174616d61747269782f656e636f6465722e456e636f646572436f6e746578742e6d696e53697a65,  -- datamatrix/encoder.EncoderContext.minSize
  0x646174616d61747269782f656e636f6465722e456e636f646572436f6e746578742e636f6465776f726473,  -- datamatrix/encoder.EncoderContext.codewords
  0x646174616d61747269782f656e636f6465722e456e636f646572436f6e746578742e736b69704174456e64,  -- datamatrix/encoder.EncoderContext.skipAtEnd
  0x676f7a78696e672e476c6f62616c486973746f6772616d42696e6172697a65722e6c756d696e616e636573,  -- gozxing.GlobalHistogramBinarizer.luminances
  0x646174616d61747269782f656e636f6465722e456e636f646572436f6e746578742e73796d626f6c496e666f,  -- datamatrix/encoder.EncoderContext.symbolInfo
  0x7172636f64652f6465636f6465722e4269744d61747269785061727365722e70617273656456657273696f6e,  -- qrcode/decoder.BitMatrixParser.parsedVersion
  0x7172636f64652f6465746563746f722e4465746563746f722e726573756c74506f696e7443616c6c6261636b,  -- qrcode/detector.Detector.resultPointCallback
  0x646174616d61747269782f656e636f6465722e456e636f646572436f6e746578742e6e6577456e636f64696e67,  -- datamatrix/encoder.EncoderContext.newEncoding
  0x7172636f64652f6465746563746f722e46696e6465725061747465726e46696e6465722e686173536b6970706564,  -- qrcode/detector.FinderPatternFinder.hasSkipped
  0x7172636f64652f6465636f6465722e4269744d61747269785061727365722e706172736564466f726d6174496e666f,  -- qrcode/decoder.BitMatrixParser.parsedFormatInfo
  0x676f7a78696e672e48796272696442696e6172697a65722e476c6f62616c486973746f6772616d42696e6172697a6572,  -- gozxing.HybridBinarizer.GlobalHistogramBinarizer
  0x6f6e65642e55504345414e457874656e73696f6e32537570706f72742e6465636f6465526f77537472696e67427566666572,  -- oned.UPCEANExtension2Support.decodeRowStringBuffer
  0x6f6e65642e55504345414e457874656e73696f6e35537570706f72742e6465636f6465526f77537472696e67427566666572,  -- oned.UPCEANExtension5Support.decodeRowStringBuffer
  0x7172636f64652f6465746563746f722e46696e6465725061747465726e46696e6465722e706f737369626c6543656e74657273,  -- qrcode/detector.FinderPatternFinder.possibleCenters
  0x646174616d61747269782f6465636f6465722e4269744d61747269785061727365722e726561644d617070696e674d6174726978,  -- datamatrix/decoder.BitMatrixParser.readMappingMatrix
  0x636f6d6d6f6e2f72656564736f6c6f6d6f6e2e52656564536f6c6f6d6f6e456e636f6465722e63616368656447656e657261746f7273,  -- common/reedsolomon.ReedSolomonEncoder.cachedGenerators
  0x7172636f64652f6465746563746f722e416c69676e6d656e745061747465726e46696e6465722e706f737369626c6543656e74657273,  -- qrcode/detector.AlignmentPatternFinder.possibleCenters
  0x7172636f64652f6465746563746f722e46696e6465725061747465726e46696e6465722e63726f7373436865636b5374617465436f756e74  -- qrcode/detector.FinderPatternFinder.crossCheckStateCount
]

end Gzx.Ref.C18Allowed
