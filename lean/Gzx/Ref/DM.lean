/-
  Gzx.DMRef — ISO/IEC 16022 ECC 200 low-level reference, written from the standard (not from the Go code).

  * `table7`            : the 30 ECC 200 symbol attribute rows (24 square + 6 rectangular), ISO 16022 Table 7
  * `symbols`           : the same rows in capacity order (smallest first, square before rectangle on ties)
  * GF(256) modulo x^8+x^5+x^3+x^2+1 (0x12D): `xtime`, `gfMul` (shift-and-add), `alpha`, `expTable`, `logTable`
  * `genPoly n`         : ∏_{i=1..n} (x - 2^i)
  * `polyRem`, `eccBlock`, `codewords` : Reed-Solomon parity by polynomial division and the standard's
                          interleaving ("codeword p of the symbol belongs to block p mod B", which for
                          144x144 means blocks 1-8 carry 156 data codewords, 9-10 carry 155, and the first
                          error codeword belongs to block 9)
  * `placeSeq`, `mappingBits` : Annex F placement (utah + corner1..4 + fixed lower-right pattern) — in Gzx/Ref/DMPlacement.lean
  * `symbolBits`        : finder L + alternating clock tracks per data region, final module matrix
  * `randomize253`, `randomize255`, `unrandomize255` : Annex B randomising rules

  Core Lean only.  Importable by other work packages (C02 uses ECC + placement + matrix).
-/
import Gzx.Util
import Gzx.Ref.DMPlacement
namespace Gzx.DMRef

/-! ## Symbol attributes (ISO/IEC 16022:2006 Table 7) -/

structure Sym where
  rows : Nat      -- symbol size, rows (including finder/clock)
  cols : Nat      -- symbol size, columns
  regRows : Nat   -- data region size, rows
  regCols : Nat   -- data region size, columns
  regions : Nat   -- number of data regions
  nData : Nat     -- total data codewords
  nErr : Nat      -- total error codewords
  blkData : Nat   -- data codewords per Reed-Solomon block (144x144: 156, two blocks carry 155)
  blkErr : Nat    -- error codewords per Reed-Solomon block
  blocks : Nat    -- interleaved blocks
  deriving DecidableEq, Repr, Inhabited

/-- the 24 square symbols followed by the 6 rectangular ones, in the order of Table 7 -/
def table7 : List Sym := [
  ⟨10, 10, 8, 8, 1, 3, 5, 3, 5, 1⟩,
  ⟨12, 12, 10, 10, 1, 5, 7, 5, 7, 1⟩,
  ⟨14, 14, 12, 12, 1, 8, 10, 8, 10, 1⟩,
  ⟨16, 16, 14, 14, 1, 12, 12, 12, 12, 1⟩,
  ⟨18, 18, 16, 16, 1, 18, 14, 18, 14, 1⟩,
  ⟨20, 20, 18, 18, 1, 22, 18, 22, 18, 1⟩,
  ⟨22, 22, 20, 20, 1, 30, 20, 30, 20, 1⟩,
  ⟨24, 24, 22, 22, 1, 36, 24, 36, 24, 1⟩,
  ⟨26, 26, 24, 24, 1, 44, 28, 44, 28, 1⟩,
  ⟨32, 32, 14, 14, 4, 62, 36, 62, 36, 1⟩,
  ⟨36, 36, 16, 16, 4, 86, 42, 86, 42, 1⟩,
  ⟨40, 40, 18, 18, 4, 114, 48, 114, 48, 1⟩,
  ⟨44, 44, 20, 20, 4, 144, 56, 144, 56, 1⟩,
  ⟨48, 48, 22, 22, 4, 174, 68, 174, 68, 1⟩,
  ⟨52, 52, 24, 24, 4, 204, 84, 102, 42, 2⟩,
  ⟨64, 64, 14, 14, 16, 280, 112, 140, 56, 2⟩,
  ⟨72, 72, 16, 16, 16, 368, 144, 92, 36, 4⟩,
  ⟨80, 80, 18, 18, 16, 456, 192, 114, 48, 4⟩,
  ⟨88, 88, 20, 20, 16, 576, 224, 144, 56, 4⟩,
  ⟨96, 96, 22, 22, 16, 696, 272, 174, 68, 4⟩,
  ⟨104, 104, 24, 24, 16, 816, 336, 136, 56, 6⟩,
  ⟨120, 120, 18, 18, 36, 1050, 408, 175, 68, 6⟩,
  ⟨132, 132, 20, 20, 36, 1304, 496, 163, 62, 8⟩,
  ⟨144, 144, 22, 22, 36, 1558, 620, 156, 62, 10⟩,
  ⟨8, 18, 6, 16, 1, 5, 7, 5, 7, 1⟩,
  ⟨8, 32, 6, 14, 2, 10, 11, 10, 11, 1⟩,
  ⟨12, 26, 10, 24, 1, 16, 14, 16, 14, 1⟩,
  ⟨12, 36, 10, 16, 2, 22, 18, 22, 18, 1⟩,
  ⟨16, 36, 14, 16, 2, 32, 24, 32, 24, 1⟩,
  ⟨16, 48, 14, 22, 2, 49, 28, 49, 28, 1⟩]

namespace Sym
def rect (s : Sym) : Bool := s.rows != s.cols
def hRegions (s : Sym) : Nat := s.cols / (s.regCols + 2)
def vRegions (s : Sym) : Nat := s.rows / (s.regRows + 2)
/-- mapping matrix size (the data modules without finder/clock tracks) -/
def mapRows (s : Sym) : Nat := s.vRegions * s.regRows
def mapCols (s : Sym) : Nat := s.hRegions * s.regCols
def total (s : Sym) : Nat := s.nData + s.nErr
/-- data codewords carried by block `b` (0-based): the number of positions `p < nData` with
    `p mod blocks = b` (data codewords are dealt round-robin to the blocks) -/
def dataLen (s : Sym) (b : Nat) : Nat := (s.nData + s.blocks - 1 - b) / s.blocks
def dataLens (s : Sym) : List Nat := (List.range s.blocks).map s.dataLen

/-- internal consistency of one row: geometry (regions x region size + finder = symbol size),
    capacity (data + error = mapping cells / 8, remainder 0 or 4 = the fixed pattern),
    block structure (blocks x per-block error = error; per-block data sums to data). -/
def geomOK (s : Sym) : Bool :=
  s.hRegions * (s.regCols + 2) == s.cols && s.vRegions * (s.regRows + 2) == s.rows &&
  s.hRegions * s.vRegions == s.regions &&
  (s.mapRows * s.mapCols) / 8 == s.total &&
  ((s.mapRows * s.mapCols) % 8 == 0 || (s.mapRows * s.mapCols) % 8 == 4) &&
  s.blocks * s.blkErr == s.nErr && s.dataLens.sum == s.nData && s.dataLen 0 == s.blkData &&
  s.rows % 2 == 0 && s.cols % 2 == 0 && s.mapRows % 2 == 0 && s.mapCols % 2 == 0 &&
  decide (0 < s.blocks) && decide (s.blocks ≤ s.nData)
end Sym

/-- stable insertion by data capacity -/
def insertByCap (x : Sym) : List Sym → List Sym
  | [] => [x]
  | y :: ys => if x.nData < y.nData then x :: y :: ys else y :: insertByCap x ys

/-- capacity order: smallest data capacity first; on equal capacity the square symbol comes first
    (squares precede rectangles in Table 7 and the insertion is stable) -/
def symbols : List Sym := table7.foldl (fun acc s => insertByCap s acc) []

/-! ## GF(256), primitive polynomial x^8 + x^5 + x^3 + x^2 + 1 (301 = 0x12D) -/

def gfPoly : Nat := 0x12D

/-- multiplication by x (= by 2) -/
def xtime (a : Nat) : Nat := if 2 * a ≥ 256 then (2 * a) ^^^ gfPoly else 2 * a

def gfMulAux : Nat → Nat → Nat → Nat → Nat
  | 0, _, _, acc => acc
  | k + 1, a, b, acc => gfMulAux k (xtime a) (b / 2) (if b % 2 = 1 then acc ^^^ a else acc)

/-- carry-less shift-and-add multiplication with reduction modulo 0x12D (8-bit operands) -/
def gfMul (a b : Nat) : Nat := gfMulAux 8 a b 0

/-- 2^i in the field -/
def alpha : Nat → Nat
  | 0 => 1
  | i + 1 => xtime (alpha i)

def expTableAux : Nat → Nat → List Nat
  | 0, _ => []
  | k + 1, p => p :: expTableAux k (xtime p)

/-- antilog table: `expTable[i] = 2^i`, i = 0..254 -/
def expTable : List Nat := expTableAux 255 1

def findIdx (x : Nat) : List Nat → Nat → Nat
  | [], _ => 0
  | y :: ys, i => if x = y then i else findIdx x ys (i + 1)

/-- log table: `logTable[v]` = the `i < 255` with `2^i = v` (entry 0 is 0 by convention) -/
def logTable : List Nat := (List.range 256).map (fun v => findIdx v expTable 0)

/-! ## Generator polynomial and Reed-Solomon parity -/

def xorZip : List Nat → List Nat → List Nat
  | x :: xs, y :: ys => (x ^^^ y) :: xorZip xs ys
  | _, _ => []

/-- `p(x) · (x + r)`, coefficients low order first -/
def mulLinear (r : Nat) (p : List Nat) : List Nat :=
  xorZip (0 :: p) (p.map (gfMul r) ++ [0])

/-- `∏_{i=1..n} (x - 2^i)` (characteristic 2: minus is plus), coefficients LOW order first,
    length `n+1`, leading (last) coefficient 1 -/
def genPoly : Nat → List Nat
  | 0 => [1]
  | n + 1 => mulLinear (alpha (n + 1)) (genPoly n)

/-- the 16 numbers of error codewords per block that occur in Table 7 -/
def parityLengths : List Nat := [5, 7, 10, 11, 12, 14, 18, 20, 24, 28, 36, 42, 48, 56, 62, 68]

/-- for each parity length the `n` non-leading coefficients of the generator polynomial, low order first
    (the form in which Annex E tabulates them and implementations store them) -/
def factorTable : List (List Nat) := parityLengths.map (fun n => (genPoly n).take n)

/-- xor `ys` into the front of `xs` -/
def xorPrefix : List Nat → List Nat → List Nat
  | x :: xs, y :: ys => (x ^^^ y) :: xorPrefix xs ys
  | xs, [] => xs
  | [], _ :: _ => []

/-- `steps` steps of schoolbook long division of `xs` (high order first) by the monic polynomial
    `x^n + gs` (`gs` = the `n` non-leading coefficients, high order first); what is left is the remainder -/
def polyRem (mul : Nat → Nat → Nat) (gs : List Nat) : Nat → List Nat → List Nat
  | 0, xs => xs
  | _ + 1, [] => []
  | k + 1, c :: xs => polyRem mul gs k (xorPrefix xs (gs.map (mul c)))

/-- non-leading generator coefficients, HIGH order first -/
def genHigh (n : Nat) : List Nat := ((genPoly n).take n).reverse

/-- the `n` error codewords of one block: remainder of `data(x)·x^n` modulo the generator polynomial,
    high order first (the order in which they are appended to the block) -/
def eccBlock (n : Nat) (data : List Nat) : List Nat :=
  polyRem gfMul (genHigh n) data.length (data ++ List.replicate n 0)

/-- every `B`-th element: `xs[0], xs[B], xs[2B], …` (`k` = elements to skip before the next pick) -/
def everyNthAux (B : Nat) : Nat → List Nat → List Nat
  | _, [] => []
  | 0, x :: xs => x :: everyNthAux B (B - 1) xs
  | k + 1, _ :: xs => everyNthAux B k xs

def everyNth (B : Nat) (xs : List Nat) : List Nat := everyNthAux B 0 xs

/-- data codewords of block `b` (0-based): `d[b], d[b+B], d[b+2B], …` -/
def blockData (s : Sym) (d : List Nat) (b : Nat) : List Nat := everyNth s.blocks (d.drop b)

def blockEcc (s : Sym) (d : List Nat) (b : Nat) : List Nat := eccBlock s.blkErr (blockData s d b)

/-- The complete codeword sequence of a symbol: the data codewords followed by the error codewords
    of all blocks interleaved.  Interleaving rule of the standard: codeword number `p` (0-based, data
    and error codewords counted through) belongs to block `p mod B`.  For every size except 144x144
    `nData mod B = 0`, so error codeword `k` belongs to block `k mod B`; for 144x144 (`1558 mod 10 = 8`)
    the first error codeword belongs to block 9 (index 8). -/
def codewords (s : Sym) (d : List Nat) : List Nat :=
  let eccs := (List.range s.blocks).map (blockEcc s d)
  d ++ (List.range s.nErr).map (fun k => ((eccs.getD ((s.nData + k) % s.blocks) []).getD (k / s.blocks) 0))

/-! ## Finder pattern, clock tracks, final symbol -/

/-- colour of symbol module (r, c), given the mapping-matrix content `m` (row-major, `mapCols` wide).
    Every data region is framed: left column and bottom row solid dark (the "L"), top row and right
    column alternating, the top-right corner module being light. -/
def symbolModule (s : Sym) (m : Array Bool) (r c : Nat) : Bool :=
  let rr := r % (s.regRows + 2)
  let cc := c % (s.regCols + 2)
  if cc = 0 then true
  else if rr = s.regRows + 1 then true
  else if rr = 0 then cc % 2 == 0
  else if cc = s.regCols + 1 then rr % 2 == 1
  else m.getD ((r / (s.regRows + 2) * s.regRows + (rr - 1)) * s.mapCols + (c / (s.regCols + 2) * s.regCols + (cc - 1))) false

/-- which cell of the mapping matrix symbol module (r, c) shows: `none` for finder / clock-track modules -/
def symbolCell (s : Sym) (r c : Nat) : Option Nat :=
  let rr := r % (s.regRows + 2)
  let cc := c % (s.regCols + 2)
  if cc = 0 ∨ rr = s.regRows + 1 ∨ rr = 0 ∨ cc = s.regCols + 1 then none
  else some ((r / (s.regRows + 2) * s.regRows + (rr - 1)) * s.mapCols + (c / (s.regCols + 2) * s.regCols + (cc - 1)))

/-- the symbol as rows of modules (true = dark), from a mapping matrix -/
def symbolOfMapping (s : Sym) (m : Array Bool) : List (List Bool) :=
  (List.range s.rows).map (fun r => (List.range s.cols).map (fun c => symbolModule s m r c))

/-- the symbol for a full codeword sequence (data + error codewords) -/
def symbolOfCodewords (s : Sym) (cw : List Nat) : List (List Bool) :=
  symbolOfMapping s (mappingBits s.mapRows s.mapCols cw)

/-- the symbol for the data codewords `d` (`d.length = s.nData`) -/
def symbolBits (s : Sym) (d : List Nat) : List (List Bool) := symbolOfCodewords s (codewords s d)

/-! ## Annex B: randomising algorithms -/

/-- 253-state pseudo-random number for codeword position `p` (1-based) -/
def pseudo253 (p : Nat) : Nat := (149 * p) % 253 + 1
/-- pad codeword (129) randomised for position `p`: `129 + R`, wrapped into 1..254 -/
def randomize253 (p : Nat) : Nat := (128 + pseudo253 p) % 254 + 1

def pseudo255 (p : Nat) : Nat := (149 * p) % 255 + 1
/-- Base 256 codeword value `v` randomised for position `p`: `v + R` modulo 256 -/
def randomize255 (v p : Nat) : Nat := (v + pseudo255 p) % 256
/-- inverse -/
def unrandomize255 (w p : Nat) : Nat := (w + 256 - pseudo255 p) % 256

end Gzx.DMRef
