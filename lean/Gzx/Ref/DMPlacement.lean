/-
  Gzx.DMRef (part) — ISO/IEC 16022 Annex F module placement, written from the standard's reference
  program: utah shapes, the four corner cases, the fixed lower-right 2x2 pattern; `placeSeq` (cells in
  codeword/bit order) and `mappingBits` (the mapping matrix for a codeword sequence).
  Kept in its own file because the per-size kernel evaluations (Gzx/Proofs/DMSize*.lean) depend on it.
  Core Lean only.
-/
import Gzx.Util
namespace Gzx.DMRef

/-! ## Annex F: module placement -/

structure PState where
  occ : Nat := 0            -- bit set of assigned cells (cell = row*ncol+col)
  seq : List Nat := []      -- assigned cells, most recent first; entry 8*(chr-1)+(bit-1) counted from the end
  bad : Bool := false       -- an index left the array / fuel ran out (never happens for the 30 sizes: theorem)
  dup : Bool := false       -- a cell was assigned twice (never happens for the 30 sizes: theorem)
  deriving Inhabited

def cellOf (nrow ncol : Nat) (row col : Int) : Option Nat :=
  if 0 ≤ row ∧ row < nrow ∧ 0 ≤ col ∧ col < ncol then some (row.toNat * ncol + col.toNat) else none

/-- `module(row, col, chr, bit)` of Annex F with the wrap-around rules -/
def module (nrow ncol : Nat) (st : PState) (row col : Int) : PState :=
  let rc : Int × Int := if row < 0 then (row + nrow, col + (4 - (((nrow + 4) % 8 : Nat) : Int))) else (row, col)
  let rc : Int × Int := if rc.2 < 0 then (rc.1 + (4 - (((ncol + 4) % 8 : Nat) : Int)), rc.2 + ncol) else rc
  match cellOf nrow ncol rc.1 rc.2 with
  | some c => { st with occ := st.occ ||| (1 <<< c), seq := c :: st.seq, dup := st.dup || st.occ.testBit c }
  | none => { st with bad := true }

def moduleList (nrow ncol : Nat) (st : PState) : List (Int × Int) → PState
  | [] => st
  | (r, c) :: rest => moduleList nrow ncol (module nrow ncol st r c) rest

/-- the standard "utah" shape, bits 1..8 (bit 1 = most significant) -/
def utahCells (row col : Int) : List (Int × Int) :=
  [(row-2, col-2), (row-2, col-1), (row-1, col-2), (row-1, col-1), (row-1, col), (row, col-2), (row, col-1), (row, col)]

def corner1Cells (nrow ncol : Nat) : List (Int × Int) :=
  let r : Int := nrow; let c : Int := ncol
  [(r-1, 0), (r-1, 1), (r-1, 2), (0, c-2), (0, c-1), (1, c-1), (2, c-1), (3, c-1)]
def corner2Cells (nrow ncol : Nat) : List (Int × Int) :=
  let r : Int := nrow; let c : Int := ncol
  [(r-3, 0), (r-2, 0), (r-1, 0), (0, c-4), (0, c-3), (0, c-2), (0, c-1), (1, c-1)]
def corner3Cells (nrow ncol : Nat) : List (Int × Int) :=
  let r : Int := nrow; let c : Int := ncol
  [(r-3, 0), (r-2, 0), (r-1, 0), (0, c-2), (0, c-1), (1, c-1), (2, c-1), (3, c-1)]
def corner4Cells (nrow ncol : Nat) : List (Int × Int) :=
  let r : Int := nrow; let c : Int := ncol
  [(r-1, 0), (r-1, c-1), (0, c-3), (0, c-2), (0, c-1), (1, c-3), (1, c-2), (1, c-1)]

/-- `array[row*ncol+col] != 0` -/
def occupied (nrow ncol : Nat) (st : PState) (row col : Int) : Bool × Bool :=
  let idx : Int := row * ncol + col
  if 0 ≤ idx ∧ idx < nrow * ncol ∧ 0 ≤ col ∧ col < ncol then (st.occ.testBit idx.toNat, false) else (false, true)

def tryUtah (nrow ncol : Nat) (st : PState) (row col : Int) : PState :=
  let (o, oob) := occupied nrow ncol st row col
  let st := if oob then { st with bad := true } else st
  if o then st else moduleList nrow ncol st (utahCells row col)

/-- `do { if (row<nrow && col>=0 && !array[..]) utah(row,col,chr++); row-=2; col+=2; } while (row>=0 && col<ncol)` -/
def sweepUp (nrow ncol : Nat) : Nat → PState → Int → Int → PState × Int × Int
  | 0, st, r, c => ({ st with bad := true }, r, c)
  | f + 1, st, r, c =>
    let st := if r < nrow ∧ c ≥ 0 then tryUtah nrow ncol st r c else st
    let r := r - 2
    let c := c + 2
    if r ≥ 0 ∧ c < ncol then sweepUp nrow ncol f st r c else (st, r, c)

/-- `do { if (row>=0 && col<ncol && !array[..]) utah(row,col,chr++); row+=2; col-=2; } while (row<nrow && col>=0)` -/
def sweepDown (nrow ncol : Nat) : Nat → PState → Int → Int → PState × Int × Int
  | 0, st, r, c => ({ st with bad := true }, r, c)
  | f + 1, st, r, c =>
    let st := if r ≥ 0 ∧ c < ncol then tryUtah nrow ncol st r c else st
    let r := r + 2
    let c := c - 2
    if r < nrow ∧ c ≥ 0 then sweepDown nrow ncol f st r c else (st, r, c)

/-- "repeatedly first check for one of the special corner cases" -/
def corners (nrow ncol : Nat) (st : PState) (row col : Int) : PState :=
  let st := if row = nrow ∧ col = 0 then moduleList nrow ncol st (corner1Cells nrow ncol) else st
  let st := if row = (nrow : Int) - 2 ∧ col = 0 ∧ ncol % 4 ≠ 0 then moduleList nrow ncol st (corner2Cells nrow ncol) else st
  let st := if row = (nrow : Int) - 2 ∧ col = 0 ∧ ncol % 8 = 4 then moduleList nrow ncol st (corner3Cells nrow ncol) else st
  if row = (nrow : Int) + 4 ∧ col = 2 ∧ ncol % 8 = 0 then moduleList nrow ncol st (corner4Cells nrow ncol) else st

/-- the outer `do { corners; sweep up; row+=1, col+=3; sweep down; row+=3, col+=1 } while (row<nrow || col<ncol)` -/
def placeLoop (nrow ncol : Nat) : Nat → PState → Int → Int → PState
  | 0, st, _, _ => { st with bad := true }
  | f + 1, st, row, col =>
    let up := sweepUp nrow ncol (nrow + ncol) (corners nrow ncol st row col) row col
    let dn := sweepDown nrow ncol (nrow + ncol) up.1 (up.2.1 + 1) (up.2.2 + 3)
    if dn.2.1 + 3 < nrow ∨ dn.2.2 + 1 < ncol then placeLoop nrow ncol f dn.1 (dn.2.1 + 3) (dn.2.2 + 1) else dn.1

/-- final state of the Annex F program for an `nrow x ncol` mapping matrix -/
def placeState (nrow ncol : Nat) : PState := placeLoop nrow ncol (nrow + ncol) {} 4 0

/-- cells in placement order: entry `8*i + (k-1)` is where bit `k` (1 = msb) of codeword `i` goes -/
def placeSeq (nrow ncol : Nat) : List Nat := (placeState nrow ncol).seq.reverse

/-- "if the lower right-hand corner is untouched, fill in the fixed pattern" -/
def fixedUsed (nrow ncol : Nat) : Bool := !(placeState nrow ncol).occ.testBit (nrow * ncol - 1)

/-- the four cells of the fixed 2x2 pattern (when used) with their colours: (cell, dark) -/
def fixedCells (nrow ncol : Nat) : List (Nat × Bool) :=
  if fixedUsed nrow ncol then
    [(nrow * ncol - ncol - 2, true), (nrow * ncol - ncol - 1, false), (nrow * ncol - 2, false), (nrow * ncol - 1, true)]
  else []

/-- bits of a codeword, most significant first (bit 1 .. bit 8 of the standard) -/
def bitsOf (v : Nat) : List Bool :=
  [v / 128 % 2 == 1, v / 64 % 2 == 1, v / 32 % 2 == 1, v / 16 % 2 == 1,
   v / 8 % 2 == 1, v / 4 % 2 == 1, v / 2 % 2 == 1, v % 2 == 1]

def allBits : List Nat → List Bool
  | [] => []
  | v :: vs => bitsOf v ++ allBits vs

/-- write `vals[i]` at position `cells[i]` -/
def scatter : List Nat → List Bool → Array Bool → Array Bool
  | c :: cs, b :: bs, g => scatter cs bs (g.setIfInBounds c b)
  | _, _, g => g

/-- the mapping matrix filled with the bits of the codeword sequence `cw`, row-major `nrow*ncol` -/
def mappingBits (nrow ncol : Nat) (cw : List Nat) : Array Bool :=
  let g := scatter (placeSeq nrow ncol) (allBits cw) (Array.replicate (nrow * ncol) false)
  scatter ((fixedCells nrow ncol).map (·.1)) ((fixedCells nrow ncol).map (·.2)) g

end Gzx.DMRef
