/-
  ECC 200 symbol sizes and data capacities of ISO/IEC 16022 (Table 7), typed from the standard:
  24 square and 6 rectangular symbols, (rows x columns) and number of data codewords.
  Used by C13 (smallest adequate symbol).  Reference = transcription; cross-checked by the
  published maximum 1558 and by `dm_capacity_formula` below (capacity = mapping-matrix cells / 8
  minus the standard's error codeword count).
-/
namespace Gzx.DMSizesRef

structure Size where
  rectangular : Bool
  width : Nat      -- columns
  height : Nat     -- rows
  dataCapacity : Nat
  errorCodewords : Nat
  deriving DecidableEq, Repr, Inhabited

def squares : List Size := [
  ⟨false, 10, 10, 3, 5⟩, ⟨false, 12, 12, 5, 7⟩, ⟨false, 14, 14, 8, 10⟩, ⟨false, 16, 16, 12, 12⟩,
  ⟨false, 18, 18, 18, 14⟩, ⟨false, 20, 20, 22, 18⟩, ⟨false, 22, 22, 30, 20⟩, ⟨false, 24, 24, 36, 24⟩,
  ⟨false, 26, 26, 44, 28⟩, ⟨false, 32, 32, 62, 36⟩, ⟨false, 36, 36, 86, 42⟩, ⟨false, 40, 40, 114, 48⟩,
  ⟨false, 44, 44, 144, 56⟩, ⟨false, 48, 48, 174, 68⟩, ⟨false, 52, 52, 204, 84⟩, ⟨false, 64, 64, 280, 112⟩,
  ⟨false, 72, 72, 368, 144⟩, ⟨false, 80, 80, 456, 192⟩, ⟨false, 88, 88, 576, 224⟩, ⟨false, 96, 96, 696, 272⟩,
  ⟨false, 104, 104, 816, 336⟩, ⟨false, 120, 120, 1050, 408⟩, ⟨false, 132, 132, 1304, 496⟩,
  ⟨false, 144, 144, 1558, 620⟩]

def rectangles : List Size := [
  ⟨true, 18, 8, 5, 7⟩, ⟨true, 32, 8, 10, 11⟩, ⟨true, 26, 12, 16, 14⟩, ⟨true, 36, 12, 22, 18⟩,
  ⟨true, 36, 16, 32, 24⟩, ⟨true, 48, 16, 49, 28⟩]

/-- number of data regions per side for a symbol dimension -/
def regions (d : Nat) (rect : Bool) : Nat :=
  if rect then (if d ≥ 32 then 2 else 1)
  else if d ≤ 26 then 1 else if d ≤ 52 then 2 else if d ≤ 104 then 4 else 6

/-- mapping-matrix cells = (width − 2·hRegions)(height − 2·vRegions); every codeword takes 8 -/
def mappingCells (s : Size) : Nat :=
  (s.width - 2 * regions s.width s.rectangular) * (s.height - 2 * (if s.rectangular then 1 else regions s.height false))

theorem dm_capacity_formula : ∀ s ∈ squares ++ rectangles, mappingCells s / 8 = s.dataCapacity + s.errorCodewords := by
  decide

/-- insertion into a list sorted by capacity, after the entries of equal capacity -/
def insertByCap (s : Size) : List Size → List Size
  | [] => [s]
  | a :: rest => if s.dataCapacity < a.dataCapacity then s :: a :: rest else a :: insertByCap s rest

/-- the 30 symbols in capacity order (on equal capacity the square symbol first) -/
def byCapacity : List Size := rectangles.foldl (fun l s => insertByCap s l) squares

end Gzx.DMSizesRef
