/-
  Reference arithmetic of GF(2)[x] on bit-vectors represented as `Nat` (bit i = coefficient of x^i).
  Written from the textbook definitions, independently of the table construction in
  `Gzx/Model/GF.lean` (which mirrors common/reedsolomon/generic_gf.go):

  * `clmul a b`   carry-less (polynomial) product of `a` and `b`, shift-and-xor over the bits of `a`;
  * `pmod p y`    remainder of `y` modulo `p` by long division from the top bit downwards.

  The field product of GF(2^m) = GF(2)[x]/(p) is `pmod p (clmul a b)`.
  Core Lean only.
-/
namespace Gzx.Ref.GF

/-- shift-and-xor over the bits of `a`, lowest bit first; `k` = number of bits of `a` still to look at -/
def clmulAux : Nat → Nat → Nat → Nat
  | 0, _, _ => 0
  | k + 1, a, b => (if a % 2 = 1 then b else 0) ^^^ 2 * clmulAux k (a / 2) b

/-- carry-less product: `clmul a b = ⊕_{i : bit i of a} (b <<< i)` -/
def clmul (a b : Nat) : Nat := clmulAux (a.log2 + 1) a b

/-- long division: clear the bits `d+k-1, …, d` of `y` (from the top) by xor-ing the aligned divisor -/
def pmodAux (p d : Nat) : Nat → Nat → Nat
  | 0, y => y
  | k + 1, y => pmodAux p d k (if y.testBit (d + k) then y ^^^ (p <<< k) else y)

/-- remainder of `y` modulo `p` in GF(2)[x]  (`p ≠ 0`, `deg p = log2 p`) -/
def pmod (p y : Nat) : Nat := pmodAux p p.log2 (y.log2 + 1 - p.log2) y

/-- the reference field product -/
def gmul (p a b : Nat) : Nat := pmod p (clmul a b)

end Gzx.Ref.GF
