/-
  Reference specification for C17 (views): a naive `w x h` array of luminances with
  crop = sub-array, invert = 255 - v, quarter turn counter-clockwise = index transform.
  Written from the property statement, not from the Go code.
-/
namespace Gzx.Luminance

structure Img where
  w : Nat
  h : Nat
  rows : List (List Nat)      -- `h` rows of `w` luminances
  deriving Repr, DecidableEq

namespace Img

def WF (m : Img) : Prop := m.rows.length = m.h ∧ ∀ r ∈ m.rows, r.length = m.w

/-- pixel `(x, y)` (0 outside) -/
def px (m : Img) (x y : Nat) : Nat := (m.rows.getD y []).getD x 0

/-- a crop rectangle is valid iff its origin is non-negative and it lies inside the image -/
def ValidCrop (m : Img) (l t : Int) (w h : Nat) : Prop := 0 ≤ l ∧ 0 ≤ t ∧ l + w ≤ m.w ∧ t + h ≤ m.h

instance (m : Img) (l t : Int) (w h : Nat) : Decidable (m.ValidCrop l t w h) := by
  unfold ValidCrop; infer_instance

/-- crop = sub-array -/
def crop (m : Img) (l t w h : Nat) : Img :=
  ⟨w, h, ((m.rows.drop t).take h).map (fun r => (r.drop l).take w)⟩

/-- invert = 255 - v -/
def invert (m : Img) : Img := ⟨m.w, m.h, m.rows.map (fun r => r.map (fun v => 255 - v))⟩

/-- quarter turn counter-clockwise: the new image is `h` wide and `w` high and
    `new(x', y') = old(w - 1 - y', x')` (the old top-right pixel becomes the new top-left pixel) -/
def rotCCW (m : Img) : Img :=
  ⟨m.h, m.w, (List.range m.w).map (fun j => m.rows.map (fun r => r.getD (m.w - 1 - j) 0))⟩

end Img
end Gzx.Luminance
