/-
  Reference tables of Code 128 (ISO/IEC 15417), Code 39 (ISO/IEC 16388), Code 93 (AIM USS-93),
  Interleaved 2 of 5 (ISO/IEC 16390) and Codabar (AIM USS-Codabar / EN 798), in the notation of the
  standards (width strings, narrow/wide letters, module strings) — transcriptions, cross-checked below by
  the structural identities each symbology defines itself by.
-/
import Gzx.Ref.UPCEAN
namespace Gzx.Ref.OneD

def digitsOf (s : String) : List Nat := s.toList.map (fun c => c.toNat - 48)

/-- Code 128: bar/space widths of values 0..105, then STOP (7 elements) -/
def code128Widths : List String := [
  "212222", "222122", "222221", "121223", "121322", "131222", "122213", "122312",
  "132212", "221213", "221312", "231212", "112232", "122132", "122231", "113222",
  "123122", "123221", "223211", "221132", "221231", "213212", "223112", "312131",
  "311222", "321122", "321221", "312212", "322112", "322211", "212123", "212321",
  "232121", "111323", "131123", "131321", "112313", "132113", "132311", "211313",
  "231113", "231311", "112133", "112331", "132131", "113123", "113321", "133121",
  "313121", "211331", "231131", "213113", "213311", "213131", "311123", "311321",
  "331121", "312113", "312311", "332111", "314111", "221411", "431111", "111224",
  "111422", "121124", "121421", "141122", "141221", "112214", "112412", "122114",
  "122411", "142112", "142211", "241211", "221114", "413111", "241112", "134111",
  "111242", "121142", "121241", "114212", "124112", "124211", "411212", "421112",
  "421211", "212141", "214121", "412121", "111143", "111341", "131141", "114113",
  "114311", "411113", "411311", "113141", "114131", "311141", "411131", "211412",
  "211214", "211232", "2331112"]

def code128Patterns : List (List Nat) := code128Widths.map digitsOf

/-- Code 39: 43 data characters, bars and spaces alternately, W = wide -/
def code39Alphabet : String := "0123456789ABCDEFGHIJKLMNOPQRSTUVWXYZ-. $/+%"

def code39NW : List String := [
  "nnnWWnWnn", "WnnWnnnnW", "nnWWnnnnW", "WnWWnnnnn", "nnnWWnnnW", "WnnWWnnnn",
  "nnWWWnnnn", "nnnWnnWnW", "WnnWnnWnn", "nnWWnnWnn", "WnnnnWnnW", "nnWnnWnnW",
  "WnWnnWnnn", "nnnnWWnnW", "WnnnWWnnn", "nnWnWWnnn", "nnnnnWWnW", "WnnnnWWnn",
  "nnWnnWWnn", "nnnnWWWnn", "WnnnnnnWW", "nnWnnnnWW", "WnWnnnnWn", "nnnnWnnWW",
  "WnnnWnnWn", "nnWnWnnWn", "nnnnnnWWW", "WnnnnnWWn", "nnWnnnWWn", "nnnnWnWWn",
  "WWnnnnnnW", "nWWnnnnnW", "WWWnnnnnn", "nWnnWnnnW", "WWnnWnnnn", "nWWnWnnnn",
  "nWnnnnWnW", "WWnnnnWnn", "nWWnnnWnn", "nWnWnWnnn", "nWnWnnnWn", "nWnnnWnWn",
  "nnnWnWnWn"]

def code39Asterisk : String := "nWnnWnWnn"

def nwToNat (s : String) : Nat := s.toList.foldl (fun acc c => 2 * acc + (if c = 'W' then 1 else 0)) 0

def code39Encodings : List Nat := code39NW.map nwToNat
def code39AsteriskEncoding : Nat := nwToNat code39Asterisk

/-- Code 93: 47 data/shift characters and the start/stop character, 9 modules each -/
def code93Alphabet : String := "0123456789ABCDEFGHIJKLMNOPQRSTUVWXYZ-. $/+%abcd*"

def code93Modules : List String := [
  "100010100", "101001000", "101000100", "101000010", "100101000", "100100100",
  "100100010", "101010000", "100010010", "100001010", "110101000", "110100100",
  "110100010", "110010100", "110010010", "110001010", "101101000", "101100100",
  "101100010", "100110100", "100011010", "101011000", "101001100", "101000110",
  "100101100", "100010110", "110110100", "110110010", "110101100", "110100110",
  "110010110", "110011010", "101101100", "101100110", "100110110", "100111010",
  "100101110", "111010100", "111010010", "111001010", "101101110", "101110110",
  "110101110", "100100110", "111011010", "111010110", "100110010", "101011110"]

def binToNat (s : String) : Nat := s.toList.foldl (fun acc c => 2 * acc + (if c = '1' then 1 else 0)) 0

def code93Encodings : List Nat := code93Modules.map binToNat

/-- Interleaved 2 of 5: two wide elements out of five per digit -/
def itfNW : List String := ["nnWWn", "WnnnW", "nWnnW", "WWnnn", "nnWnW", "WnWnn", "nWWnn", "nnnWW", "WnnWn", "nWnWn"]

/-- widths with narrow = 1 and wide = `w` modules -/
def itfPatterns (w : Nat) : List (List Nat) := itfNW.map (fun s => s.toList.map (fun c => if c = 'W' then w else 1))

/-- Codabar: 7 elements (bar space bar space bar space bar), 1 = wide -/
def codabarAlphabet : String := "0123456789-$:/.+ABCD"

def codabarElements : List String := [
  "0000011", "0000110", "0001001", "1100000", "0010010", "1000010", "0100001", "0100100", "0110000", "1001000",
  "0001100", "0011000", "1000101", "1010001", "1010100", "0010101", "0011010", "0101001", "0001011", "0001110"]

def codabarEncodings : List Nat := codabarElements.map binToNat

/-! ### structural cross-checks -/

def sumN (xs : List Nat) : Nat := xs.foldr (· + ·) 0

/-- Code 128: 107 patterns; all but STOP have 6 elements of width 1..4 summing to 11 modules with an even
    number of dark modules; STOP has 7 elements and 13 modules; all pairwise distinct -/
example : code128Patterns.length = 107 := by decide
example : (code128Patterns.take 106).all (fun p => p.length = 6 ∧ sumN p = 11 ∧ p.all (fun w => 1 ≤ w ∧ w ≤ 4)
    ∧ (p.getD 0 0 + p.getD 2 0 + p.getD 4 0) % 2 = 0) = true := by decide
example : code128Patterns.getD 106 [] = [2, 3, 3, 1, 1, 1, 2] := by decide
example : code128Patterns.Nodup := by decide +kernel
/-- Code 39: 9 elements, exactly 3 wide ("3 of 9"); 43 + '*' distinct -/
example : (code39Asterisk :: code39NW).all (fun s => s.length = 9 ∧ (s.toList.filter (· = 'W')).length = 3) = true := by decide
example : (code39AsteriskEncoding :: code39Encodings).Nodup ∧ code39Encodings.length = 43 ∧ code39Alphabet.length = 43 := by decide
/-- Code 93: 9 modules, starts with a bar, ends with a space, three bars and three spaces; 48 distinct -/
example : code93Modules.all (fun s => s.length = 9 ∧ s.toList.head? = some '1' ∧ s.toList.getLast? = some '0'
    ∧ (Ref.UPCEAN.runsOf s.toList).length = 6) = true := by decide
example : code93Encodings.Nodup ∧ code93Encodings.length = 48 ∧ code93Alphabet.length = 48 := by decide
/-- ITF: exactly two wide of five, ten distinct -/
example : itfNW.all (fun s => s.length = 5 ∧ (s.toList.filter (· = 'W')).length = 2) = true ∧ itfNW.Nodup := by decide
/-- Codabar: 7 elements; 0-9 - $ have one wide bar and one wide space, : / . + three wide bars, A-D one wide
    bar and two wide spaces; 20 distinct -/
example : codabarEncodings.Nodup ∧ codabarEncodings.length = 20 ∧ codabarAlphabet.length = 20 := by decide
example : (codabarElements.take 12).all (fun s => (s.toList.filter (· = '1')).length = 2) = true
    ∧ (codabarElements.drop 12).all (fun s => (s.toList.filter (· = '1')).length = 3) = true := by decide

end Gzx.Ref.OneD
