/-
  Reference construction of a QR Code symbol (Model 2), written from ISO/IEC 18004
  (clauses 6.3 function patterns, 6.4 data encodation, 6.5 error correction, 6.6 codeword
  sequence, 6.7 placement, 6.8 masking, 6.9 format information, 6.10 version information,
  annexes C/D BCH codes, annex E alignment positions) — NOT from qrcode/encoder/*.go.

  Core Lean only.  Everything the theorems talk about is structural recursion over `List`/`Nat`;
  the only `Array` is inside `refMatrix` (assembly of the 177x177 matrix for the driver),
  whose functional specification is `moduleAt`.

  Coordinates: `x` = column (the standard's `j`), `y` = row (the standard's `i`), origin top-left.
  Matrices are lists of rows: `m[y][x]`, `true` = dark.

  Transcribed from memory of the standard (no formula exists): the two 40x4 tables
  `ecPerBlockTable` / `numBlocksTable` (Table 9 columns "EC codewords per block" and "number of
  EC blocks").  They are cross-checked by `Properties/C07.std_blocks_sum` (fills the geometry's
  codeword count for all 160 rows) and by the published capacities (`C13.qr_capacity_figures`).
-/
namespace Gzx.QRRef

/-! ## Levels, modes -/

inductive EC where
  | L | M | Q | H
  deriving DecidableEq, Repr, Inhabited

/-- the two-bit level indicator of the format information (Table 12): L=01 M=00 Q=11 H=10 -/
def EC.bits : EC → Nat
  | .L => 1 | .M => 0 | .Q => 3 | .H => 2

/-- column of Table 9 (order L, M, Q, H) -/
def EC.idx : EC → Nat
  | .L => 0 | .M => 1 | .Q => 2 | .H => 3

def EC.all : List EC := [.L, .M, .Q, .H]

def EC.ofIdx : Nat → EC
  | 0 => .L | 1 => .M | 2 => .Q | _ => .H

def EC.name : EC → String
  | .L => "L" | .M => "M" | .Q => "Q" | .H => "H"

def EC.ofName? : String → Option EC
  | "L" => some .L | "M" => some .M | "Q" => some .Q | "H" => some .H | _ => none

inductive Mode where
  | numeric | alnum | byte | kanji
  deriving DecidableEq, Repr, Inhabited

def Mode.all : List Mode := [.numeric, .alnum, .byte, .kanji]

/-- four-bit mode indicator (Table 2) -/
def Mode.indicator : Mode → Nat
  | .numeric => 1 | .alnum => 2 | .byte => 4 | .kanji => 8

def Mode.name : Mode → String
  | .numeric => "NUMERIC" | .alnum => "ALPHANUMERIC" | .byte => "BYTE" | .kanji => "KANJI"

/-- number of bits of the character count indicator (Table 3), version classes 1-9, 10-26, 27-40 -/
def countBits (m : Mode) (v : Nat) : Nat :=
  match m with
  | .numeric => if v ≤ 9 then 10 else if v ≤ 26 then 12 else 14
  | .alnum   => if v ≤ 9 then 9  else if v ≤ 26 then 11 else 13
  | .byte    => if v ≤ 9 then 8  else 16
  | .kanji   => if v ≤ 9 then 8  else if v ≤ 26 then 10 else 12

/-! ## Geometry -/

/-- modules per side -/
def dimension (v : Nat) : Nat := 17 + 4 * v

/-- number of alignment-pattern centre coordinates per axis (Annex E) -/
def alignCount (v : Nat) : Nat := if v < 2 then 0 else v / 7 + 2

/-- spacing of the alignment centres: the centres run from 6 to `dimension-7`; all gaps but the
    first are equal and even, `2·⌈(4v+4)/(2k)⌉` for `k = alignCount-1` gaps, the uneven rest is
    taken up between the timing pattern (6) and the second centre.  Version 32 is the one row of
    Table E.1 that deviates from this rule (26 instead of 28). -/
def alignStep (v : Nat) : Nat :=
  if v = 32 then 26
  else
    let k := alignCount v - 1
    2 * ((4 * v + 4 + (2 * k - 1)) / (2 * k))

/-- row/column coordinates of the alignment pattern centres (Table E.1), ascending -/
def alignCentres (v : Nat) : List Nat :=
  if v < 2 then []
  else
    let a := alignCount v
    let last := 4 * v + 10
    6 :: (List.range (a - 1)).map (fun i => last - (a - 2 - i) * alignStep v)

/-- Number of modules available for data + error-correction codewords + remainder bits, from the
    function-pattern geometry: all modules, minus three 8x8 finder+separator corners, minus
    2x15 format modules and the dark module, minus the two timing patterns between the
    separators, minus the alignment patterns (`a²-3` patterns of 25 modules; the `a-2` patterns on
    each timing line cover 5 timing modules already counted), minus 2x18 version modules. -/
def rawDataModules (v : Nat) : Nat :=
  let n := dimension v
  let a := alignCount v
  n * n - 3 * 64 - (2 * 15 + 1) - 2 * (n - 16)
    - (if a = 0 then 0 else 25 * (a * a - 3) - 2 * 5 * (a - 2))
    - (if v ≥ 7 then 36 else 0)

/-- total number of codewords (data + EC) of version `v` -/
def totalCodewords (v : Nat) : Nat := rawDataModules v / 8

/-- remainder bits after the last codeword (Table 1: 0, 7, 3 or 4) -/
def remainderBits (v : Nat) : Nat := rawDataModules v % 8

/-! ## Error-correction block structure (Table 9) -/

/-- EC codewords per block, rows L, M, Q, H, columns version 1..40 -/
def ecPerBlockTable : List (List Nat) := [
  [ 7, 10, 15, 20, 26, 18, 20, 24, 30, 18, 20, 24, 26, 30, 22, 24, 28, 30, 28, 28,
   28, 28, 30, 30, 26, 28, 30, 30, 30, 30, 30, 30, 30, 30, 30, 30, 30, 30, 30, 30],
  [10, 16, 26, 18, 24, 16, 18, 22, 22, 26, 30, 22, 22, 24, 24, 28, 28, 26, 26, 26,
   26, 28, 28, 28, 28, 28, 28, 28, 28, 28, 28, 28, 28, 28, 28, 28, 28, 28, 28, 28],
  [13, 22, 18, 26, 18, 24, 18, 22, 20, 24, 28, 26, 24, 20, 30, 24, 28, 28, 26, 30,
   28, 30, 30, 30, 30, 28, 30, 30, 30, 30, 30, 30, 30, 30, 30, 30, 30, 30, 30, 30],
  [17, 28, 22, 16, 22, 28, 26, 26, 24, 28, 24, 28, 22, 24, 24, 30, 28, 28, 26, 28,
   30, 24, 30, 30, 30, 30, 30, 30, 30, 30, 30, 30, 30, 30, 30, 30, 30, 30, 30, 30]]

/-- number of EC blocks, rows L, M, Q, H, columns version 1..40 -/
def numBlocksTable : List (List Nat) := [
  [ 1,  1,  1,  1,  1,  2,  2,  2,  2,  4,  4,  4,  4,  4,  6,  6,  6,  6,  7,  8,
    8,  9,  9, 10, 12, 12, 12, 13, 14, 15, 16, 17, 18, 19, 19, 20, 21, 22, 24, 25],
  [ 1,  1,  1,  2,  2,  4,  4,  4,  5,  5,  5,  8,  9,  9, 10, 10, 11, 13, 14, 16,
   17, 17, 18, 20, 21, 23, 25, 26, 28, 29, 31, 33, 35, 37, 38, 40, 43, 45, 47, 49],
  [ 1,  1,  2,  2,  4,  4,  6,  6,  8,  8,  8, 10, 12, 16, 12, 17, 16, 18, 21, 20,
   23, 23, 25, 27, 29, 34, 34, 35, 38, 40, 43, 45, 48, 51, 53, 56, 59, 62, 65, 68],
  [ 1,  1,  2,  4,  4,  4,  5,  6,  8,  8, 11, 11, 16, 16, 18, 16, 19, 21, 25, 25,
   25, 34, 30, 32, 35, 37, 40, 42, 45, 48, 51, 54, 57, 60, 63, 66, 70, 74, 77, 81]]

def ecPerBlock (v : Nat) (ec : EC) : Nat := (ecPerBlockTable.getD ec.idx []).getD (v - 1) 0
def numBlocks (v : Nat) (ec : EC) : Nat := (numBlocksTable.getD ec.idx []).getD (v - 1) 0

/-- number of data codewords of a (version, level) -/
def dataCodewords (v : Nat) (ec : EC) : Nat := totalCodewords v - ecPerBlock v ec * numBlocks v ec

/-- The block rows of Table 9 as (number of blocks, data codewords per block): the data codewords
    are divided over the blocks as evenly as possible, the shorter blocks first
    (`d mod b` blocks carry one codeword more). -/
def blockGroups (v : Nat) (ec : EC) : List (Nat × Nat) :=
  let b := numBlocks v ec
  let d := dataCodewords v ec
  if b = 0 then []
  else if d % b = 0 then [(b, d / b)]
  else [(b - d % b, d / b), (d % b, d / b + 1)]

/-- data lengths of the individual blocks in sequence -/
def blockDataLengths (v : Nat) (ec : EC) : List Nat :=
  (blockGroups v ec).flatMap (fun g => List.replicate g.1 g.2)

/-- one row of the version table, in the shape the library stores it -/
structure VersionInfo where
  number : Nat
  align : List Nat
  /-- (EC codewords per block, [(count, data codewords)]) in the order L, M, Q, H -/
  ecBlocks : List (Nat × List (Nat × Nat))
  total : Nat
  deriving DecidableEq, Repr, Inhabited

def versionInfo (v : Nat) : VersionInfo :=
  { number := v
    align := alignCentres v
    ecBlocks := EC.all.map (fun ec => (ecPerBlock v ec, blockGroups v ec))
    total := totalCodewords v }

/-- the 40 version rows prescribed by the standard -/
def versions : List VersionInfo := (List.range 40).map (fun i => versionInfo (i + 1))

/-! ## Bits -/

/-- `width` bits of `value`, most significant first -/
def toBitsBE (width value : Nat) : List Bool :=
  (List.range width).map (fun i => value.testBit (width - 1 - i))

def ofBitsBE (bs : List Bool) : Nat := bs.foldl (fun a b => 2 * a + b.toNat) 0

/-- pack bits (length a multiple of 8) into bytes, msb first -/
def bytesOfBits : Nat → List Bool → List Nat
  | 0, _ => []
  | _, [] => []
  | f + 1, bs => ofBitsBE (bs.take 8) :: bytesOfBits f (bs.drop 8)

def bitsOfBytes (bs : List Nat) : List Bool := bs.flatMap (toBitsBE 8)

/-! ## BCH codes of the format and version information (annexes C, D) -/

/-- remainder of `a(x)` divided by `g(x)` over GF(2), `deg g = d`, `a` below `2^(k+d)` -/
def polyMod2 (g d : Nat) : Nat → Nat → Nat
  | 0, a => a
  | k + 1, a => polyMod2 g d k (if a.testBit (k + d) then a ^^^ (g <<< k) else a)

def formatPoly : Nat := 0x537      -- x^10+x^8+x^5+x^4+x^2+x+1
def formatMask : Nat := 0x5412     -- 101010000010010
def versionPoly : Nat := 0x1F25    -- x^12+x^11+x^10+x^9+x^8+x^5+x^2+1

/-- BCH(15,5): ten check bits of the five data bits `d` -/
def bch15 (d : Nat) : Nat := polyMod2 formatPoly 10 5 (d <<< 10)

/-- BCH(18,6): twelve check bits of the six version bits -/
def bch18 (v : Nat) : Nat := polyMod2 versionPoly 12 6 (v <<< 12)

/-- the 15-bit masked format word for data bits `d = level<<3 | mask` -/
def formatWordOfData (d : Nat) : Nat := ((d <<< 10) ||| bch15 d) ^^^ formatMask

def formatWord (ec : EC) (mask : Nat) : Nat := formatWordOfData ((ec.bits <<< 3) ||| mask)

/-- the 18-bit version word -/
def versionWord (v : Nat) : Nat := (v <<< 12) ||| bch18 v

def popCount : Nat → Nat → Nat
  | 0, _ => 0
  | w + 1, a => (if a.testBit w then 1 else 0) + popCount w a

/-- Hamming distance of two words below `2^w` -/
def hamming (w a b : Nat) : Nat := popCount w (a ^^^ b)

/-! ## Function patterns -/

inductive Region where
  | finder | separator | timing | alignment | dark | format | version | data
  deriving DecidableEq, Repr, Inhabited

/-- (x,y) of format bit `i` (0 = least significant), copy around the upper-left finder (Figure 25) -/
def formatPos1 (i : Nat) : Nat × Nat :=
  if i ≤ 5 then (8, i) else if i = 6 then (8, 7) else if i = 7 then (8, 8)
  else if i = 8 then (7, 8) else (14 - i, 8)

/-- second copy: bits 0-7 below the upper-right finder (right to left), bits 8-14 right of the
    lower-left finder (top to bottom) -/
def formatPos2 (n i : Nat) : Nat × Nat :=
  if i ≤ 7 then (n - 1 - i, 8) else (8, n - 15 + i)

/-- (x,y) of version bit `i` (0 = least significant), lower-left block (Figure 27) -/
def versionPos1 (n i : Nat) : Nat × Nat := (i / 3, n - 11 + i % 3)
/-- upper-right block: the transpose -/
def versionPos2 (n i : Nat) : Nat × Nat := (n - 11 + i % 3, i / 3)

def near (c x : Nat) (r : Nat) : Bool := c ≤ x + r && x ≤ c + r

/-- is (x,y) inside an alignment pattern?  All pairs of centres except the three that would
    collide with the finder patterns. -/
def inAlignment (v x y : Nat) : Bool :=
  let cs := alignCentres v
  let last := 4 * v + 10
  cs.any (fun cx => near cx x 2 && cs.any (fun cy => near cy y 2 &&
    !((cx == 6 && cy == 6) || (cx == 6 && cy == last) || (cx == last && cy == 6))))

/-- what kind of module is (x,y) in a version-`v` symbol (`x,y < dimension v`) -/
def regionOf (v x y : Nat) : Region :=
  let n := dimension v
  if (x < 7 && y < 7) || (x + 7 ≥ n && y < 7) || (x < 7 && y + 7 ≥ n) then .finder
  else if (x < 8 && y < 8) || (x + 8 ≥ n && y < 8) || (x < 8 && y + 8 ≥ n) then .separator
  else if x == 8 && y + 8 == n then .dark
  else if (x ≤ 8 && y ≤ 8 && (x == 8 || y == 8) && x != 6 && y != 6) || (y == 8 && x + 8 ≥ n) || (x == 8 && y + 8 ≥ n) then .format
  else if v ≥ 7 && ((x < 6 && y + 11 ≥ n && y + 9 ≤ n) || (y < 6 && x + 11 ≥ n && x + 9 ≤ n)) then .version
  else if inAlignment v x y then .alignment
  else if x == 6 || y == 6 then .timing
  else .data

def isFunction (v x y : Nat) : Bool := regionOf v x y != .data

/-- colour of a finder-pattern module (7x7: dark ring, light ring, dark 3x3 core) -/
def finderDark (v x y : Nat) : Bool :=
  let n := dimension v
  let dx := if x < 7 then x else x + 7 - n      -- offset inside the 7x7 pattern
  let dy := if y < 7 then y else y + 7 - n
  let r := max (if dx ≥ 3 then dx - 3 else 3 - dx) (if dy ≥ 3 then dy - 3 else 3 - dy)
  r != 2

/-- colour of an alignment-pattern module: dark centre, light ring, dark ring -/
def alignmentDark (v x y : Nat) : Bool :=
  let cs := alignCentres v
  let dist := fun (t : Nat) => (cs.filter (fun c => near c t 2)).map (fun c => if t ≥ c then t - c else c - t)
  match dist x, dist y with
  | dx :: _, dy :: _ => max dx dy != 1
  | _, _ => false

def formatBitAt (n word x y : Nat) : Bool :=
  match (List.range 15).find? (fun i => formatPos1 i == (x, y) || formatPos2 n i == (x, y)) with
  | some i => word.testBit i
  | none => false

def versionBitAt (n word x y : Nat) : Bool :=
  match (List.range 18).find? (fun i => versionPos1 n i == (x, y) || versionPos2 n i == (x, y)) with
  | some i => word.testBit i
  | none => false

/-- colour of a function module -/
def functionModule (v : Nat) (ec : EC) (mask : Nat) (x y : Nat) : Bool :=
  match regionOf v x y with
  | .finder => finderDark v x y
  | .separator => false
  | .timing => (x + y) % 2 == 0
  | .alignment => alignmentDark v x y
  | .dark => true
  | .format => formatBitAt (dimension v) (formatWord ec mask) x y
  | .version => versionBitAt (dimension v) (versionWord v) x y
  | .data => false

/-! ## Placement order (6.7.3) -/

/-- right-hand column of the `k`-th two-module column from the right; the vertical timing
    column 6 is skipped -/
def pairColumn (n k : Nat) : Nat := if n - 1 - 2 * k ≥ 7 then n - 1 - 2 * k else n - 2 - 2 * k

/-- one two-module column: upwards or downwards, right module before left module -/
def columnPair (n xr : Nat) (up : Bool) : List (Nat × Nat) :=
  (if up then (List.range n).reverse else List.range n).flatMap (fun y => [(xr, y), (xr - 1, y)])

/-- all modules outside column 6 in the standard's placement order: two-module columns from the
    right edge, alternately upwards and downwards, starting upwards at the lower right corner -/
def zigzagAll (n : Nat) : List (Nat × Nat) :=
  (List.range ((n - 1) / 2)).flatMap (fun k => columnPair n (pairColumn n k) (k % 2 == 0))

/-- the data modules of version `v` in placement order -/
def zigzag (v : Nat) : List (Nat × Nat) :=
  (zigzagAll (dimension v)).filter (fun c => !isFunction v c.1 c.2)

/-! ## Masks (Table 10) -/

/-- mask condition `k` at row `i = y`, column `j = x`; `true` = invert the module -/
def maskBit (k x y : Nat) : Bool :=
  let i := y
  let j := x
  match k with
  | 0 => (i + j) % 2 == 0
  | 1 => i % 2 == 0
  | 2 => j % 3 == 0
  | 3 => (i + j) % 3 == 0
  | 4 => (i / 2 + j / 3) % 2 == 0
  | 5 => (i * j) % 2 + (i * j) % 3 == 0
  | 6 => ((i * j) % 2 + (i * j) % 3) % 2 == 0
  | 7 => ((i + j) % 2 + (i * j) % 3) % 2 == 0
  | _ => false

/-! ## Symbol assembly -/

/-- the codeword sequence as module values along the placement order: codeword bits msb first,
    then the remainder bits (zero), everything XORed with the mask -/
def placedData (v mask : Nat) (codewords : List Nat) : List ((Nat × Nat) × Bool) :=
  let cells := zigzag v
  let bits := bitsOfBytes codewords
  let bits := bits ++ List.replicate (cells.length - bits.length) false
  List.zipWith (fun c b => (c, b != maskBit mask c.1 c.2)) cells bits

/-- functional specification of the symbol: colour of module (x,y) -/
def moduleAt (v : Nat) (ec : EC) (mask : Nat) (codewords : List Nat) (x y : Nat) : Bool :=
  if isFunction v x y then functionModule v ec mask x y
  else ((placedData v mask codewords).lookup (x, y)).getD false

/-- specification matrix (slow: quadratic; use `refMatrix`) -/
def specMatrix (v : Nat) (ec : EC) (mask : Nat) (codewords : List Nat) : List (List Bool) :=
  let n := dimension v
  (List.range n).map (fun y => (List.range n).map (fun x => moduleAt v ec mask codewords x y))

/-- the symbol for a final (interleaved) codeword sequence: rows of modules.
    Same function as `specMatrix`, assembled through an array. -/
def refMatrix (v : Nat) (ec : EC) (mask : Nat) (codewords : List Nat) : List (List Bool) :=
  let n := dimension v
  let fw := formatWord ec mask
  let vw := versionWord v
  let base : Array Bool := Array.ofFn (n := n * n) (fun i =>
    let x := i.val % n
    let y := i.val / n
    match regionOf v x y with
    | .finder => finderDark v x y
    | .separator => false
    | .timing => (x + y) % 2 == 0
    | .alignment => alignmentDark v x y
    | .dark => true
    | .format => formatBitAt n fw x y
    | .version => versionBitAt n vw x y
    | .data => false)
  let arr := (placedData v mask codewords).foldl (fun a cb => a.setIfInBounds (cb.1.2 * n + cb.1.1) cb.2) base
  (List.range n).map (fun y => (List.range n).map (fun x => arr.getD (y * n + x) false))

/-! ## GF(256) and Reed-Solomon parity (6.5.2): field polynomial x^8+x^4+x^3+x^2+1 (0x11D),
    generator ∏_{i<n} (x - 2^i) -/

/-- carry-less multiplication modulo 0x11D, 8 steps -/
def gfMulAux : Nat → Nat → Nat → Nat → Nat
  | 0, _, _, acc => acc
  | f + 1, a, b, acc =>
    let acc := if b % 2 = 1 then acc ^^^ a else acc
    let a2 := if a * 2 ≥ 256 then (a * 2) ^^^ 0x11D else a * 2
    gfMulAux f a2 (b / 2) acc

def gfMul (a b : Nat) : Nat := gfMulAux 8 a b 0

/-- α^i for α = 2 -/
def gfExp : Nat → Nat
  | 0 => 1
  | i + 1 => gfMul 2 (gfExp i)

/-- p(x)·(x + r), coefficients highest power first -/
def polyMulLinear (p : List Nat) (r : Nat) : List Nat :=
  List.zipWith (· ^^^ ·) (p ++ [0]) (0 :: p.map (gfMul r))

/-- generator polynomial of degree `n`, monic, highest power first (`n+1` coefficients) -/
def rsGenerator (n : Nat) : List Nat :=
  ((List.range n).foldl (fun (ga : List Nat × Nat) _ => (polyMulLinear ga.1 ga.2, gfMul 2 ga.2)) ([1], 1)).1

/-- the `n` parity codewords of a block: remainder of data(x)·x^n divided by the generator -/
def rsParity (data : List Nat) (n : Nat) : List Nat :=
  let g := (rsGenerator n).drop 1
  data.foldl (fun reg d =>
    let fb := d ^^^ reg.headD 0
    List.zipWith (· ^^^ ·) (reg.tail ++ [0]) (g.map (gfMul fb))) (List.replicate n 0)

/-! ## Codeword sequence (6.6) -/

def splitBlocks : List Nat → List Nat → List (List Nat)
  | [], _ => []
  | len :: lens, data => data.take len :: splitBlocks lens (data.drop len)

/-- take the first codeword of every block, then the second of every block, ... -/
def roundRobin : Nat → List (List Nat) → List Nat
  | 0, _ => []
  | f + 1, bs => bs.filterMap List.head? ++ roundRobin f (bs.map List.tail)

def maxLen (bs : List (List Nat)) : Nat := bs.foldl (fun m b => max m b.length) 0

/-- final codeword sequence for the data codewords of a (version, level) -/
def finalCodewords (v : Nat) (ec : EC) (data : List Nat) : List Nat :=
  let blocks := splitBlocks (blockDataLengths v ec) data
  let ecs := blocks.map (fun b => rsParity b (ecPerBlock v ec))
  roundRobin (maxLen blocks) blocks ++ roundRobin (maxLen ecs) ecs

/-! ## Data encodation (6.4) -/

/-- value of a character in alphanumeric mode (Table 5) -/
def alnumCode (c : Nat) : Option Nat :=
  if 48 ≤ c ∧ c ≤ 57 then some (c - 48)            -- 0-9
  else if 65 ≤ c ∧ c ≤ 90 then some (c - 55)       -- A-Z
  else if c = 32 then some 36                       -- space
  else if c = 36 then some 37                       -- $
  else if c = 37 then some 38                       -- %
  else if c = 42 then some 39                       -- *
  else if c = 43 then some 40                       -- +
  else if c = 45 then some 41                       -- -
  else if c = 46 then some 42                       -- .
  else if c = 47 then some 43                       -- /
  else if c = 58 then some 44                       -- :
  else none

def digitVal (c : Nat) : Option Nat := if 48 ≤ c ∧ c ≤ 57 then some (c - 48) else none

/-- numeric mode: groups of three digits in 10 bits, a final pair in 7, a final single in 4 -/
def packNumeric : List Nat → List Bool
  | a :: b :: c :: rest => toBitsBE 10 (100 * a + 10 * b + c) ++ packNumeric rest
  | [a, b] => toBitsBE 7 (10 * a + b)
  | [a] => toBitsBE 4 a
  | [] => []

/-- alphanumeric mode: pairs in 11 bits (45·a+b), a final single in 6 -/
def packAlnum : List Nat → List Bool
  | a :: b :: rest => toBitsBE 11 (45 * a + b) ++ packAlnum rest
  | [a] => toBitsBE 6 a
  | [] => []

/-- Kanji mode value of a Shift-JIS double byte (6.4.6) -/
def kanjiCode (hi lo : Nat) : Option Nat :=
  let code := hi * 256 + lo
  if 0x8140 ≤ code ∧ code ≤ 0x9FFC then
    let s := code - 0x8140
    some ((s / 256) * 0xC0 + s % 256)
  else if 0xE040 ≤ code ∧ code ≤ 0xEBBF then
    let s := code - 0xC140
    some ((s / 256) * 0xC0 + s % 256)
  else none

def packKanji : List Nat → Option (List Bool)
  | hi :: lo :: rest => do
    let c ← kanjiCode hi lo
    let r ← packKanji rest
    pure (toBitsBE 13 c ++ r)
  | [_] => none
  | [] => some []

/-- (character count, data bits) of one segment; `none` when a character is not encodable in the mode -/
def encodeData (m : Mode) (bytes : List Nat) : Option (Nat × List Bool) :=
  match m with
  | .numeric => (bytes.mapM digitVal).map (fun ds => (ds.length, packNumeric ds))
  | .alnum => (bytes.mapM alnumCode).map (fun cs => (cs.length, packAlnum cs))
  | .byte => some (bytes.length, bitsOfBytes bytes)
  | .kanji => (packKanji bytes).map (fun bs => (bytes.length / 2, bs))

/-- number of data bits of `n` characters in a mode -/
def dataBitsLen (m : Mode) (n : Nat) : Nat :=
  match m with
  | .numeric => 10 * (n / 3) + (if n % 3 = 0 then 0 else if n % 3 = 1 then 4 else 7)
  | .alnum => 11 * (n / 2) + 6 * (n % 2)
  | .byte => 8 * n
  | .kanji => 13 * n

/-- ECI designator (6.4.2.1): one, two or three bytes -/
def eciDesignator (e : Nat) : List Bool :=
  if e < 128 then toBitsBE 8 e
  else if e < 16384 then toBitsBE 16 (0x8000 + e)
  else toBitsBE 24 (0xC00000 + e)

/-- what precedes the character count: optional ECI header, optional FNC1 (first position), mode -/
def headerBits (eci : Option Nat) (gs1 : Bool) (m : Mode) : List Bool :=
  (match eci with
   | some e => toBitsBE 4 7 ++ eciDesignator e
   | none => [])
  ++ (if gs1 then toBitsBE 4 5 else [])
  ++ toBitsBE 4 m.indicator

/-- the payload of a single-segment symbol before termination -/
def payloadBits (v : Nat) (hdr : List Bool) (m : Mode) (count : Nat) (data : List Bool) : List Bool :=
  hdr ++ toBitsBE (countBits m v) count ++ data

/-- does a payload of `hdrLen + countBits + dataLen` bits fit (version, level)? -/
def fitsBits (v : Nat) (ec : EC) (m : Mode) (hdrLen dataLen : Nat) : Bool :=
  hdrLen + countBits m v + dataLen ≤ 8 * dataCodewords v ec

/-- the smallest version 1..40 that holds the payload -/
def minVersion (ec : EC) (m : Mode) (hdrLen dataLen : Nat) : Option Nat :=
  ((List.range 40).map (· + 1)).find? (fun v => fitsBits v ec m hdrLen dataLen)

/-- pad codewords 11101100, 00010001 alternately -/
def padBytes : Nat → List Nat
  | 0 => []
  | 1 => [0xEC]
  | n + 2 => 0xEC :: 0x11 :: padBytes n

/-- terminator (up to four zero bits, fewer at capacity), zero bits to the codeword boundary,
    pad codewords up to `d` data codewords (6.4.9, 6.4.10).  Requires `bits.length ≤ 8d`. -/
def terminate (d : Nat) (bits : List Bool) : List Nat :=
  let t := min 4 (8 * d - bits.length)
  let bits := bits ++ List.replicate t false
  let bits := bits ++ List.replicate ((8 - bits.length % 8) % 8) false
  let bytes := bytesOfBits (bits.length / 8) bits
  bytes ++ padBytes (d - bytes.length)

/-! ## Mask evaluation (6.8.2, Table 11) -/

/-- N1: every run of `5+i` same-coloured modules in a line scores `3+i` -/
def runPenalty : List Bool → Option Bool → Nat → Nat
  | [], _, run => if run ≥ 5 then 3 + (run - 5) else 0
  | b :: bs, prev, run =>
    if prev = some b then runPenalty bs prev (run + 1)
    else (if run ≥ 5 then 3 + (run - 5) else 0) + runPenalty bs (some b) 1

def transpose (n : Nat) (m : List (List Bool)) : List (List Bool) :=
  (List.range n).map (fun x => m.map (fun row => row.getD x false))

def sumL (xs : List Nat) : Nat := xs.foldl (· + ·) 0

def penalty1 (m : List (List Bool)) : Nat :=
  sumL (m.map (fun r => runPenalty r none 0)) + sumL ((transpose m.length m).map (fun r => runPenalty r none 0))

/-- number of x with r0[x]=r0[x+1]=r1[x]=r1[x+1] -/
def blocks2 : List Bool → List Bool → Nat
  | a :: b :: r0, c :: d :: r1 =>
    (if a = b ∧ a = c ∧ a = d then 1 else 0) + blocks2 (b :: r0) (d :: r1)
  | _, _ => 0

def rowPairs : List (List Bool) → Nat
  | r0 :: r1 :: rest => blocks2 r0 r1 + rowPairs (r1 :: rest)
  | _ => 0

/-- N2: every 2x2 block of one colour scores 3 (an m x n block contains (m-1)(n-1) of them) -/
def penalty2 (m : List (List Bool)) : Nat := 3 * rowPairs m

def allLight (bs : List Bool) : Bool := bs.all (fun b => !b)

/-- occurrences of dark-light-dark-dark-dark-light-dark (1:1:3:1:1) in a line with four light
    modules before or after it (the quiet zone counts as light); `before` = preceding modules, nearest first -/
def finderLike : List Bool → List Bool → Nat
  | _, [] => 0
  | before, b :: rest =>
    (match b :: rest with
     | true :: false :: true :: true :: true :: false :: true :: after =>
       if allLight (before.take 4) || allLight (after.take 4) then 1 else 0
     | _ => 0) + finderLike (b :: before) rest

/-- N3: 40 per occurrence, rows and columns -/
def penalty3 (m : List (List Bool)) : Nat :=
  40 * (sumL (m.map (finderLike [])) + sumL ((transpose m.length m).map (finderLike [])))

/-- N4: 10·k where the dark proportion deviates from 50% by at least 5k% and less than 5(k+1)% -/
def penalty4 (m : List (List Bool)) : Nat :=
  let total := sumL (m.map List.length)
  let dark := sumL (m.map (fun r => r.count true))
  let dev := if 2 * dark ≥ total then 2 * dark - total else total - 2 * dark
  10 * (dev * 10 / total)

def penalty (m : List (List Bool)) : Nat := penalty1 m + penalty2 m + penalty3 m + penalty4 m

/-- the mask pattern with the lowest penalty (the lowest reference on a tie) -/
def chooseMask (v : Nat) (ec : EC) (codewords : List Nat) : Nat :=
  ((List.range 8).foldl (fun (best : Nat × Nat) k =>
    let p := penalty (refMatrix v ec k codewords)
    if best.2 = 0 ∨ p + 1 < best.2 then (k, p + 1) else best) (0, 0)).1

/-! ## Whole encoder (single segment) -/

structure Config where
  ec : EC
  /-- ECI assignment number to announce, if any -/
  eci : Option Nat := none
  gs1 : Bool := false
  /-- requested version (used exactly or refused) -/
  version : Option Nat := none
  /-- requested mask pattern 0..7 -/
  mask : Option Nat := none

structure Symbol where
  mode : Mode
  version : Nat
  mask : Nat
  dataCodewords : List Nat
  codewords : List Nat
  matrix : List (List Bool)

/-- data codewords of a single-segment message in version `v` -/
def dataCodewordsOf (v : Nat) (ec : EC) (hdr : List Bool) (m : Mode) (count : Nat) (data : List Bool) : List Nat :=
  terminate (dataCodewords v ec) (payloadBits v hdr m count data)

/-- Encode `bytes` (already in the byte representation of the mode: ASCII digits / alphanumerics,
    bytes of the chosen character set, Shift-JIS pairs) as one segment of mode `m`.
    `none`: not encodable in the mode, does not fit, or requested version out of range. -/
def refEncode (m : Mode) (bytes : List Nat) (cfg : Config) : Option Symbol := do
  let (count, data) ← encodeData m bytes
  let hdr := headerBits cfg.eci cfg.gs1 m
  let v ← match cfg.version with
    | some v => if 1 ≤ v ∧ v ≤ 40 ∧ fitsBits v cfg.ec m hdr.length data.length then some v else none
    | none => minVersion cfg.ec m hdr.length data.length
  let dcw := dataCodewordsOf v cfg.ec hdr m count data
  let cw := finalCodewords v cfg.ec dcw
  let mask := match cfg.mask with
    | some k => k
    | none => chooseMask v cfg.ec cw
  pure { mode := m, version := v, mask := mask, dataCodewords := dcw, codewords := cw,
         matrix := refMatrix v cfg.ec mask cw }

end Gzx.QRRef
