/-
  Reference bit stream of a MULTI-SEGMENT QR Code symbol, written from ISO/IEC 18004:2015 — NOT from the Go code:
    7.4.2 ECI header (mode 0111 + 1/2/3-byte designator), 7.4.3-7.4.6 numeric / alphanumeric / byte / Kanji segments
    (`Gzx.QRPack`), 7.4.8 FNC1 modes (0101 first position, 1001 second position), 8 structured append (mode 0011,
    8-bit symbol sequence indicator, 8-bit parity), 7.4.1 "a symbol may contain any sequence of segments";
  and, for Hanzi, from GB/T 18284-2000 (mode 1101, 4-bit subset indicator 0001 = GB 2312, count, 13 bits per character).
  Core Lean only (the driver builds the `c01multi` reference symbols from these definitions).
-/
import Gzx.Ref.QRPack
namespace Gzx.QRMulti
open Gzx.QRDec Gzx.QRPack

/-- Hanzi mode (GB/T 18284): a GB 2312 double-byte character (lead, trail); subtract 0xA1A1 (lead 0xA1..0xAA) or
    0xA6A1 (lead 0xB0..0xFA), then most significant byte × 0x60 + least significant byte, in 13 bits -/
def hanziValue (lead trail : Nat) : Nat :=
  let base := if lead ≤ 0xAA then 0xA1 else 0xA6
  (lead - base) * 0x60 + (trail - 0xA1)

def packHanzi : List (Nat × Nat) → List Bool
  | [] => []
  | (l, t) :: rest => natToBits 13 (hanziValue l t) ++ packHanzi rest

/-- ECI designator (7.4.2.2): 0bbbbbbb | 10bbbbbb bbbbbbbb | 110bbbbb bbbbbbbb bbbbbbbb -/
def eciBits (val : Nat) : List Bool :=
  if val < 128 then natToBits 8 val
  else if val < 16384 then natToBits 16 (0x8000 + val)
  else natToBits 24 (0xC00000 + val)

/-- what a symbol's bit stream is made of -/
inductive Item where
  /-- digit values 0..9 -/
  | numeric (ds : List Nat)
  /-- alphanumeric values 0..44 (Table 5) -/
  | alnum (cs : List Nat)
  | byte (bs : List Nat)
  /-- Shift_JIS (lead, trail) pairs -/
  | kanji (ps : List (Nat × Nat))
  /-- GB 2312 (lead, trail) pairs, subset indicator 1 -/
  | hanzi (ps : List (Nat × Nat))
  /-- ECI assignment number -/
  | eci (val : Nat)
  | fnc1First
  /-- mode indicator 1001 alone: the library (like ZXing) does not consume the 8-bit application indicator that
      7.4.8.3 puts after it — see `Properties.C01Multi.fnc1_second_application_indicator_misparsed` -/
  | fnc1Second
  /-- structured append: symbol sequence indicator (position, total-1 in 4+4 bits) and parity byte -/
  | sa (seq par : Nat)
  deriving DecidableEq, Repr, Inhabited

/-- the bits of one item in a symbol of version `v` -/
def Item.bits (v : Nat) : Item → List Bool
  | .numeric ds => segment 1 (countWidth 0 v) ds.length (packNumeric ds)
  | .alnum cs => segment 2 (countWidth 1 v) cs.length (packAlnum cs)
  | .byte bs => segment 4 (countWidth 2 v) bs.length (packBytes bs)
  | .kanji ps => segment 8 (countWidth 3 v) ps.length (packKanji ps)
  | .hanzi ps => natToBits 4 0xD ++ (natToBits 4 1 ++ (natToBits (countWidth 3 v) ps.length ++ packHanzi ps))
  | .eci val => natToBits 4 7 ++ eciBits val
  | .fnc1First => natToBits 4 5
  | .fnc1Second => natToBits 4 9
  | .sa seq par => natToBits 4 3 ++ (natToBits 8 seq ++ natToBits 8 par)

/-- the payload (before terminator and padding) of a symbol holding the items in this order -/
def bitsOf (v : Nat) : List Item → List Bool
  | [] => []
  | it :: rest => it.bits v ++ bitsOf v rest

/-! ### structured form: header + body -/

inductive Fnc1 where
  | none | first | second
  deriving DecidableEq, Repr, Inhabited

/-- a symbol as the standard lays it out: optional structured-append header, optional FNC1 indicator, then data
    segments with ECI designators between them -/
structure Symbol where
  sa : Option (Nat × Nat) := none
  fnc1 : Fnc1 := .none
  body : List Item

def Symbol.header (s : Symbol) : List Item :=
  (match s.sa with | some (q, p) => [.sa q p] | none => []) ++
  (match s.fnc1 with | .none => [] | .first => [.fnc1First] | .second => [.fnc1Second])

def Symbol.items (s : Symbol) : List Item := s.header ++ s.body

/-- body items: data segments and ECI designators -/
def Item.isBody : Item → Bool
  | .fnc1First | .fnc1Second | .sa _ _ => false
  | _ => true

/-- GS1 alphanumeric data (7.4.8.2): `%` is doubled, the separator GS (0x1D) becomes a single `%` — on characters -/
def gs1Escape : List Nat → List Nat
  | [] => []
  | c :: rest => (if c = 0x1D then [37] else if c = 37 then [37, 37] else [c]) ++ gs1Escape rest

/-- no separator is directly followed by a separator or by `%` (there the standard's escape is ambiguous:
    `GS %` and `% GS` both escape to `%%%`, `GS GS` to `%%`) -/
def gs1Clean : List Nat → Bool
  | a :: b :: rest => !(a == 0x1D && (b == 0x1D || b == 37)) && gs1Clean (b :: rest)
  | _ => true

end Gzx.QRMulti
