/-
  Meaning of a multi-segment item list (work package c01multi): what the decoder must report, as a fold over the items —
  independent of the bit-level parser.  Kept apart from the proofs so that the driver can print it (`c01multi expect`).
-/
import Gzx.Ref.QRMulti
import Gzx.Model.QRDecoder
import Gzx.Proofs.QRSegments
namespace Gzx.QRMulti
open Gzx Gzx.QRDec Gzx.QRPack Gzx.ECI

/-- the character set a byte segment is decoded with: the ECI in effect, otherwise the guess `g` -/
def charsetOf (g : List Nat → Charset) (e : Option Entry) (bs : List Nat) : Charset :=
  match e with
  | some e => .named e.name
  | none => g bs

/-- what one item does to the parser's visible state (segments so far, byte segments, structured-append fields,
    ECI in effect, FNC1 flags); `g` = the charset picked for an un-designated byte segment -/
def step (reg : Registry) (g : List Nat → Charset) (st : PSt) : Item → PSt
  | .numeric ds => { st with segs := st.segs ++ [.raw (ds.map (48 + ·))] }
  | .alnum cs =>
    { st with segs := st.segs ++ [.raw (if st.fnc1 then fnc1Massage (cs.map alnumCharOf) else cs.map alnumCharOf)] }
  | .byte bs => { st with segs := st.segs ++ [.text (charsetOf g st.eci bs) bs], byteSegs := st.byteSegs ++ [bs] }
  | .kanji ps => { st with segs := st.segs ++ [.text .sjis (ps.flatMap (fun p => [p.1, p.2]))] }
  | .hanzi ps => { st with segs := st.segs ++ [.text (.named "GB18030") (ps.flatMap (fun p => [p.1, p.2]))] }
  | .eci val => { st with eci := lookupValue reg val }
  | .fnc1First => { st with fnc1First := true, fnc1 := true }
  | .fnc1Second => { st with fnc1Second := true, fnc1 := true }
  | .sa q p => { st with saSeq := q, saPar := p }

def run (reg : Registry) (g : List Nat → Charset) : PSt → List Item → PSt
  | st, [] => st
  | st, it :: rest => run reg g (step reg g st it) rest

/-- the result record of `DecodedBitStreamParser_Decode` for a final state -/
def toParsed (st : PSt) : Parsed := ⟨st.segs, st.byteSegs, st.saSeq, st.saPar, symbologyModifier st⟩

end Gzx.QRMulti
