/-
  Reference bit packing of QR data segments, written from ISO/IEC 18004 (7.4.3 numeric, 7.4.4
  alphanumeric, 7.4.5 byte, 7.4.6 Kanji; 7.4.9 terminator and padding) — NOT from the Go encoder.
  Used by the decoder-side layer inverses of C01 (`parse ∘ pack = id`).  The encoder model
  `Gzx.QRRef` (work package C07/C13) is tied to this packing by its own theorems.
-/
import Gzx.Model.QRBits
namespace Gzx.QRPack
open Gzx.QRDec

/-- numeric mode: digit values 0..9; three digits → 10 bits, two → 7 bits, one → 4 bits -/
def packNumeric : List Nat → List Bool
  | a :: b :: c :: rest => natToBits 10 (100 * a + 10 * b + c) ++ packNumeric rest
  | [a, b] => natToBits 7 (10 * a + b)
  | [a] => natToBits 4 a
  | [] => []

/-- alphanumeric mode: character values 0..44; two characters → 11 bits (45·a + b), one → 6 bits -/
def packAlnum : List Nat → List Bool
  | a :: b :: rest => natToBits 11 (45 * a + b) ++ packAlnum rest
  | [a] => natToBits 6 a
  | [] => []

/-- byte mode: 8 bits per byte -/
def packBytes (bs : List Nat) : List Bool := bs.flatMap (natToBits 8)

/-- Kanji mode: a Shift_JIS double-byte character (lead, trail); subtract 0x8140 (lead 0x81..0x9F) or
    0xC140 (lead 0xE0..0xEB), then most significant byte × 0xC0 + least significant byte, in 13 bits -/
def kanjiValue (lead trail : Nat) : Nat :=
  let base := if lead ≤ 0x9F then 0x81 else 0xC1
  (lead - base) * 0xC0 + (trail - 0x40)

def packKanji : List (Nat × Nat) → List Bool
  | [] => []
  | (l, t) :: rest => natToBits 13 (kanjiValue l t) ++ packKanji rest

/-- mode indicator + character count indicator (of width `cb`) + data bits -/
def segment (modeBits cb count : Nat) (data : List Bool) : List Bool :=
  natToBits 4 modeBits ++ natToBits cb count ++ data

/-- character-count indicator widths of Table 3, by version class 1-9 / 10-26 / 27-40 -/
def countWidth (numericAlnumByteKanji : Nat) (ver : Nat) : Nat :=
  let k := if ver ≤ 9 then 0 else if ver ≤ 26 then 1 else 2
  match numericAlnumByteKanji, k with
  | 0, 0 => 10 | 0, 1 => 12 | 0, _ => 14
  | 1, 0 => 9 | 1, 1 => 11 | 1, _ => 13
  | 2, 0 => 8 | 2, _ => 16
  | _, 0 => 8 | _, 1 => 10 | _, _ => 12

end Gzx.QRPack
