/-
  wp rowsrest — reference encoder for RSS-14 (GS1 DataBar Omnidirectional), written from ISO/IEC 24724 (Annex B
  `getRSSwidths`, the characteristic tables of the outside / inside data characters, the checksum weights and the
  finder patterns) — NOT from the Go source.  Transcription from memory; cross-checked (Properties/C06RSS.lean) against
  the structure the standard states: every subset has exactly the number of width tuples its table row says, all
  tuples respect sum / widest / narrow-element rules, and the library's `RSSUtils_getRSSvalue` is the inverse.
-/
import Gzx.Util
namespace Gzx.Ref.RSS14

/-- binomial coefficient (Pascal) -/
def choose : Nat → Nat → Nat
  | _, 0 => 1
  | 0, _ + 1 => 0
  | n + 1, k + 1 => choose n k + choose n (k + 1)

/-- `combins(n, r)` of the standard's listing on integers: 0 outside `0 ≤ r ≤ n` -/
def combins (n r : Int) : Int := if n < 0 ∨ r < 0 then 0 else choose n.toNat r.toNat

/-- Σ over `mxwElement = hi, hi-1, …, maxWidth+1` of `combins(base - mxwElement - 1, r)` -/
def lessVal (base r : Int) : Nat → Int → Int
  | 0, _ => 0
  | k + 1, mxw => combins (base - mxw - 1) r + lessVal base r k (mxw - 1)

/-- number of width tuples that start with `elmWidth` at position `bar`: the standard's `subVal` -/
def subVal (n elmWidth : Int) (elements bar : Nat) (maxWidth : Int) (requireNarrow : Bool) (noNarrowYet : Bool) : Int :=
  let eb : Int := (elements : Int) - (bar : Int)
  let s := combins (n - elmWidth - 1) (eb - 2)
  let s := if requireNarrow ∧ noNarrowYet ∧ n - elmWidth - (eb - 1) ≥ eb - 1 then s - combins (n - elmWidth - eb) (eb - 2) else s
  if eb - 1 > 1 then
    let hi := n - elmWidth - (eb - 2)
    s - lessVal (n - elmWidth) (eb - 3) (hi - maxWidth).toNat hi * (eb - 1)
  else if n - elmWidth > maxWidth then s - 1
  else s

/-- the inner loop of `getRSSwidths`: find the element width at position `bar`; returns (width, remaining value) -/
def pickWidth (n : Int) (elements bar : Nat) (maxWidth : Int) (requireNarrow : Bool) (narrowBefore : Bool) :
    Nat → Int → Int → Int × Int
  | 0, elmWidth, val => (elmWidth, val)
  | fuel + 1, elmWidth, val =>
    -- `narrowMask == 0` ⇔ no earlier element is 1 wide and this one is already wider than 1
    let noNarrowYet := !narrowBefore && decide (elmWidth > 1)
    let s := subVal n elmWidth elements bar maxWidth requireNarrow noNarrowYet
    if val - s < 0 then (elmWidth, val) else pickWidth n elements bar maxWidth requireNarrow narrowBefore fuel (elmWidth + 1) (val - s)

/-- `getRSSwidths(val, n, elements, maxWidth, noNarrow)`; `requireNarrow` = at least one element must be 1 module wide -/
def widthsLoop (elements : Nat) (maxWidth : Int) (requireNarrow : Bool) : Nat → Nat → Int → Int → Bool → List Int
  | 0, _, n, _, _ => [n]
  | k + 1, bar, n, val, narrowBefore =>
    let (w, val') := pickWidth n elements bar maxWidth requireNarrow narrowBefore n.toNat 1 val
    w :: widthsLoop elements maxWidth requireNarrow k (bar + 1) (n - w) val' (narrowBefore || decide (w = 1))

def getRSSwidths (val n : Int) (elements : Nat) (maxWidth : Int) (requireNarrow : Bool) : List Int :=
  widthsLoop elements maxWidth requireNarrow (elements - 1) 0 n val false

/-- one row of the characteristic tables (ISO/IEC 24724 Tables 3 and 4): first value of the group, modules of the odd
    and even elements, widest odd / even element, number of even (outside) resp. odd (inside) tuples -/
structure Group where
  gsum : Nat
  oddModules : Nat
  evenModules : Nat
  oddWidest : Nat
  evenWidest : Nat
  t : Nat

def outsideGroups : List Group :=
  [⟨0, 12, 4, 8, 1, 1⟩, ⟨161, 10, 6, 6, 3, 10⟩, ⟨961, 8, 8, 4, 5, 34⟩, ⟨2015, 6, 10, 3, 6, 70⟩, ⟨2715, 4, 12, 1, 8, 126⟩]

def insideGroups : List Group :=
  [⟨0, 5, 10, 2, 7, 4⟩, ⟨336, 7, 8, 4, 5, 20⟩, ⟨1036, 9, 6, 6, 3, 48⟩, ⟨1516, 11, 4, 8, 1, 81⟩]

def groupOf (gs : List Group) (v : Nat) : Option Group := (gs.filter (fun g => g.gsum ≤ v)).getLast?

def interleave : List Int → List Int → List Int
  | a :: as, b :: bs => a :: b :: interleave as bs
  | _, _ => []

/-- the eight element widths of a data character (odd elements first, third, …): outside characters 0..2840 (16
    modules), inside characters 0..1596 (15 modules) -/
def charWidths (outside : Bool) (v : Nat) : Option (List Int) :=
  match groupOf (if outside then outsideGroups else insideGroups) v with
  | none => none
  | some g =>
    let d := v - g.gsum
    let (vOdd, vEven) := if outside then (d / g.t, d % g.t) else (d % g.t, d / g.t)
    let odd := getRSSwidths vOdd g.oddModules 4 g.oddWidest (!outside)
    let even := getRSSwidths vEven g.evenModules 4 g.evenWidest outside
    some (interleave odd even)

def finderPatterns : List (List Int) :=
  [[3, 8, 2, 1, 1], [3, 5, 5, 1, 1], [3, 3, 7, 1, 1], [3, 1, 9, 1, 1], [2, 7, 4, 1, 1], [2, 5, 6, 1, 1], [2, 3, 8, 1, 1],
   [1, 5, 7, 1, 1], [1, 3, 9, 1, 1]]

/-- checksum weights of the 4 x 8 data elements: powers of 3 modulo 79 -/
def checksumWeights : List Int := (List.range 32).map (fun i => ((3 ^ i % 79 : Nat) : Int))

def dot : List Int → List Int → Int
  | a :: as, b :: bs => a * b + dot as bs
  | _, _ => 0

/-- the 46 element widths of the symbol of the 13-digit value `v` (first element a space): left guard, character 1,
    left finder, character 2 reversed, character 4, right finder reversed, character 3 reversed, right guard -/
def encode (v : Nat) : Option (List Int) :=
  let left := v / 4537077
  let right := v % 4537077
  match charWidths true (left / 1597), charWidths false (left % 1597), charWidths true (right / 1597), charWidths false (right % 1597) with
  | some c1, some c2, some c3, some c4 =>
    let ck := (dot checksumWeights (c1 ++ c2 ++ c3 ++ c4)).toNat % 79
    let ck := if ck ≥ 8 then ck + 1 else ck
    let ck := if ck ≥ 72 then ck + 1 else ck
    match finderPatterns[ck / 9]?, finderPatterns[ck % 9]? with
    | some fl, some fr => some ([1, 1] ++ c1 ++ fl ++ c2.reverse ++ c4 ++ fr.reverse ++ c3.reverse ++ [1, 1])
    | _, _ => none
  | _, _, _, _ => none

end Gzx.Ref.RSS14
