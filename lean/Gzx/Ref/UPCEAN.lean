/-
  Reference tables for the UPC/EAN family, typed from the standard (ISO/IEC 15420 / GS1 General
  Specifications) in the standard's own notation — module strings and parity letters — not from the
  Go source.  Cross-checked below against independent structural facts of the symbology.
-/
import Gzx.Util
namespace Gzx.Ref.UPCEAN

/-- run lengths of a module string ("0001101" -> [3,2,1,1]) -/
def runsOf : List Char → List Nat
  | [] => []
  | c :: cs =>
    match runsOf cs, cs with
    | r :: rs, c' :: _ => if c = c' then (r + 1) :: rs else 1 :: r :: rs
    | _, _ => [1]

/-- number set A ("L", odd parity) of ISO/IEC 15420 Table 1: 7 modules, starts with a space -/
def setA : List String :=
  ["0001101", "0011001", "0010011", "0111101", "0100011",
   "0110001", "0101111", "0111011", "0110111", "0001011"]

/-- L patterns as run widths (space, bar, space, bar) -/
def lPatterns : List (List Nat) := setA.map (fun s => runsOf s.toList)

/-- G patterns (number set B) = number set C read backwards = L widths reversed -/
def gPatterns : List (List Nat) := lPatterns.map List.reverse

def lAndGPatterns : List (List Nat) := lPatterns ++ gPatterns

def startEndGuard : List Nat := [1, 1, 1]        -- "101"
def middleGuard : List Nat := [1, 1, 1, 1, 1]    -- "01010"
def upceEndGuard : List Nat := [1, 1, 1, 1, 1, 1] -- "010101"
def addOnGuard : List Nat := [1, 1, 2]           -- "1011"

/-- letters -> bit pattern, MSB first, the letter `one` counts as 1 -/
def lettersToNat (one : Char) (s : String) : Nat :=
  s.toList.foldl (fun acc c => 2 * acc + (if c = one then 1 else 0)) 0

/-- EAN-13: number sets of the six left-half digits implied by the leading digit -/
def ean13Parity : List String :=
  ["LLLLLL", "LLGLGG", "LLGGLG", "LLGGGL", "LGLLGG",
   "LGGLLG", "LGGGLL", "LGLGLG", "LGLGGL", "LGGLGL"]

def ean13FirstDigit : List Nat := ean13Parity.map (lettersToNat 'G')

/-- UPC-E, number system 0: parity (E = even = number set B/G, O = odd = A/L) by check digit -/
def upceParity0 : List String :=
  ["EEEOOO", "EEOEOO", "EEOOEO", "EEOOOE", "EOEEOO",
   "EOOEEO", "EOOOEE", "EOEOEO", "EOEOOE", "EOOEOE"]

/-- number system 1 uses the complementary parities -/
def upceParity : List (List Nat) :=
  [upceParity0.map (lettersToNat 'E'), upceParity0.map (lettersToNat 'O')]

/-- EAN-5 add-on: number sets by check value -/
def ean5Parity : List String :=
  ["GGLLL", "GLGLL", "GLLGL", "GLLLG", "LGGLL", "LLGGL", "LLLGG", "LGLGL", "LGLLG", "LLGLG"]

def ean5CheckDigit : List Nat := ean5Parity.map (lettersToNat 'G')

/-! ### independent structural cross-checks of the transcription -/

/-- every L pattern has 4 runs summing to 7 modules; an odd number of dark modules (odd parity) -/
example : lPatterns.all (fun p => p.length = 4 ∧ p.foldr (· + ·) 0 = 7) = true := by decide
example : (setA.map (fun s => (s.toList.filter (· = '1')).length % 2)).all (· = 1) = true := by decide
/-- the 20 L and G width patterns are pairwise distinct -/
example : lAndGPatterns.Nodup := by decide
/-- UPC-E parities: three even and three odd digits each -/
example : upceParity0.all (fun s => (s.toList.filter (· = 'E')).length = 3 ∧ s.length = 6) = true := by decide
/-- EAN-13 parities for 1..9 coincide with UPC-E number system 1 (the historical origin of EAN-13) -/
example : ean13FirstDigit.drop 1 = (upceParity.getD 1 []).drop 1 := by decide
/-- UPC-E number system 0 parities are 'E' followed by the EAN-5 parity of the same value -/
example : upceParity.getD 0 [] = ean5CheckDigit.map (· + 32) := by decide
/-- EAN-5: exactly two G's among five, all ten combinations -/
example : ean5Parity.all (fun s => (s.toList.filter (· = 'G')).length = 2 ∧ s.length = 5) = true ∧ ean5CheckDigit.Nodup := by decide

end Gzx.Ref.UPCEAN
