import Gzx.Gen.K03w
import Gzx.Model.OneD
open Gzx Gzx.OneD
def bts (s : String) : List Int := s.toList.map (fun c => (c.toNat : Int))
def LG : List (List Int) := (lAndG refTables.lPatterns).map (·.map Int.ofNat)
#eval Gen.K03w.ean13Encode LG (bts "5901234123457")
#eval (ean13Modules refTables (bytesOf "5901234123457")).map (·.map (fun b => if b then 1 else 0))
#eval Gen.K03w.ean13Encode LG (bts "590123412345")
#eval Gen.K03w.ean13Encode LG (bts "59012341234é")
#eval Gen.K03w.ean8Encode (bts "1234567")
#eval (ean8Modules refTables (bytesOf "1234567")).map (·.map (fun b => if b then 1 else 0))
#eval Gen.K03w.upceEncode LG (bts "0123456")
#eval (upceModules refTables (bytesOf "0123456")).map (·.map (fun b => if b then 1 else 0))
#eval Gen.K03w.upceEncode LG (bts "2123456")
#eval (upceModules refTables (bytesOf "2123456")).map (·.map (fun b => if b then 1 else 0))
