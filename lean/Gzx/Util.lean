/-
  Shared helpers for the executable models and the line-protocol driver.
  Core Lean only (no Mathlib) so that `gzxdriver` links.
-/
namespace Gzx

/-- How a modelled Go operation can fail.  `panic` models a Go run-time panic
    (index out of range, nil dereference, division by zero, failed type assertion);
    the other constructors model the library's *checked* error returns. -/
inductive Fault where
  | panic (why : String)
  | notFound
  | checksum
  | format
  | illegalArg
  | writer
  | fuel
  deriving Repr, DecidableEq, Inhabited

def Fault.tag : Fault → String
  | .panic _ => "PANIC"
  | .notFound => "notfound"
  | .checksum => "checksum"
  | .format => "format"
  | .illegalArg => "illegalarg"
  | .writer => "writer"
  | .fuel => "FUEL"

deriving instance DecidableEq for Except

abbrev Res (α : Type) := Except Fault α

def Fault.isPanic : Fault → Bool
  | .panic _ => true
  | _ => false

/-- parse a decimal integer with optional leading '-' -/
def parseInt? (s : String) : Option Int :=
  if s.startsWith "-" then (s.drop 1).toString.toNat?.map (fun n => - (Int.ofNat n))
  else s.toNat?.map Int.ofNat

def parseNat? (s : String) : Option Nat := s.toNat?

/-- "0101" -> [false,true,false,true] -/
def parseBits (s : String) : List Bool :=
  s.toList.filterMap (fun c => if c = '1' then some true else if c = '0' then some false else none)

def showBits (bs : List Bool) : String :=
  String.ofList (bs.map (fun b => if b then '1' else '0'))

/-- "1,2,3" -> [1,2,3]; "" -> [] ; malformed -> none -/
def parseNatList? (s : String) : Option (List Nat) :=
  if s.isEmpty || s == "-" then some [] else (s.splitOn ",").mapM parseNat?

def parseIntList? (s : String) : Option (List Int) :=
  if s.isEmpty || s == "-" then some [] else (s.splitOn ",").mapM parseInt?

def showNatList (xs : List Nat) : String :=
  if xs.isEmpty then "-" else ",".intercalate (xs.map toString)

def showIntList (xs : List Int) : String :=
  if xs.isEmpty then "-" else ",".intercalate (xs.map toString)

def hexDigit (n : Nat) : Char :=
  if n < 10 then Char.ofNat (48 + n) else Char.ofNat (87 + n)

def hexByte (n : Nat) : String :=
  String.ofList [hexDigit ((n / 16) % 16), hexDigit (n % 16)]

def showHex (bs : List Nat) : String :=
  if bs.isEmpty then "-" else String.join (bs.map hexByte)

def hexVal? (c : Char) : Option Nat :=
  if '0' ≤ c ∧ c ≤ '9' then some (c.toNat - 48)
  else if 'a' ≤ c ∧ c ≤ 'f' then some (c.toNat - 87)
  else if 'A' ≤ c ∧ c ≤ 'F' then some (c.toNat - 55)
  else none

partial def parseHexAux : List Char → List Nat → Option (List Nat)
  | [], acc => some acc.reverse
  | [_], _ => none
  | a :: b :: rest, acc =>
    match hexVal? a, hexVal? b with
    | some x, some y => parseHexAux rest ((x * 16 + y) :: acc)
    | _, _ => none

/-- "0aff" -> [10,255]; "-" -> [] -/
def parseHex? (s : String) : Option (List Nat) :=
  if s == "-" || s.isEmpty then some [] else parseHexAux s.toList []

/-- key=value argument lookup -/
def argOf (args : List String) (key : String) : Option String :=
  args.findSome? (fun a =>
    if a.startsWith (key ++ "=") then some (a.drop (key.length + 1)).toString else none)

def argNat (args : List String) (key : String) : Option Nat := (argOf args key).bind parseNat?
def argInt (args : List String) (key : String) : Option Int := (argOf args key).bind parseInt?

def showRes {α} (f : α → String) : Res α → String
  | .ok a => f a
  | .error e => "ERR:" ++ e.tag

end Gzx
