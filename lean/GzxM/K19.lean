/-
  Work package k19 (property C19) — the REGENERATED perspective kernels (`Gzx.Gen.K19.*`, translator kind `funcn`: the
  same generated syntax that runs on Go's float64 when instantiated with `floatOps`) instantiated with AN ARBITRARY
  FIELD, so that the algebra theorems of `GzxM/Perspective.lean` become statements about the source text of
  common/perspective_transform.go as it is in /repo now:
    * `fieldOps` — the operations structure of a field, `FieldLike` (Obligations/K19P.lean then gives
      `Gen.K19.f fieldOps = Model.f`);
    * `gen_squareToQuad_maps_corners` — the regenerated `SquareToQuadrilateral` followed by the regenerated
      `TransformPoints` sends the unit-square corners onto the four given points;
    * `gen_adjoint_is_projective_inverse` — regenerated `times` of a transform with its regenerated `buildAdjoint`
      is `det • I` (both orders);
    * `gen_times_is_composition` — regenerated `TransformPoints` with the regenerated product = one after the other.
  Mathlib only for `Field` and the imported theorems; `when_kernel`-guarded like the obligation files.
-/
import GzxM.Perspective
import Gzx.Obligations.K19P
namespace GzxM.K19
open Gzx Gzx.GoM Gzx.K19 Gzx.Perspective GzxM.Perspective Gzx.Obligations.K19P

variable {K : Type} [Field K] [DecidableEq K]

/-- the float64 operations of a regenerated kernel, read in a field (`int(x)` and the order tests are not used by the
    perspective kernels) -/
def fieldOps : NumOps K where
  add := (· + ·)
  sub := (· - ·)
  mul := (· * ·)
  div := (· / ·)
  neg := fun a => -a
  ofInt := fun i => (i : K)
  toInt := fun _ => 0
  eq := fun a b => decide (a = b)
  lt := fun _ _ => false
  le := fun _ _ => false

theorem fieldOps_fieldLike : FieldLike (fieldOps (K := K)) :=
  ⟨fun _ _ => rfl, fun _ _ => rfl, fun _ _ => rfl, fun _ _ => rfl, Int.cast_zero, Int.cast_one, fun _ _ => rfl⟩

when_kernel Gzx.Gen.K19.squareToQuad in
/-- regenerated `SquareToQuadrilateral`, then regenerated `TransformPoints` on the unit-square corners: the four given
    points (non-degeneracy hypotheses of `squareToQuad_corners`) -/
theorem gen_squareToQuad_maps_corners (x0 y0 x1 y1 x2 y2 x3 y3 : K)
    (hdeg : sqDegenerate x0 y0 x1 y1 x2 y2 x3 y3 = false)
    (h10 : (squareToQuadrilateral x0 y0 x1 y1 x2 y2 x3 y3).denom 1 0 ≠ 0)
    (h11 : (squareToQuadrilateral x0 y0 x1 y1 x2 y2 x3 y3).denom 1 1 ≠ 0)
    (h01 : (squareToQuadrilateral x0 y0 x1 y1 x2 y2 x3 y3).denom 0 1 ≠ 0) :
    ∃ p : PT K, Gen.K19.squareToQuad fieldOps x0 y0 x1 y1 x2 y2 x3 y3 = .ok (tup p) ∧
      Gen.K19.transformPoints fieldOps p.a11 p.a21 p.a31 p.a12 p.a22 p.a32 p.a13 p.a23 p.a33 [0, 0, 1, 0, 1, 1, 0, 1]
        = .ok [x0, y0, x1, y1, x2, y2, x3, y3] := by
  refine ⟨squareToQuadrilateral x0 y0 x1 y1 x2 y2 x3 y3, k_squareToQuad_eq _ fieldOps_fieldLike .., ?_⟩
  rw [k_transformPoints_eq _ fieldOps_fieldLike]
  obtain ⟨c0, c1, c2, c3⟩ := squareToQuad_corners x0 y0 x1 y1 x2 y2 x3 y3 hdeg h10 h11 h01
  simp only [PT.transformPoints, c0, c1, c2, c3]

when_kernel Gzx.Gen.K19.buildAdjoint in
/-- regenerated `times` of a transform with its regenerated `buildAdjoint` is `det • I`, in both orders -/
theorem gen_adjoint_is_projective_inverse (p : PT K) :
    ∃ q : PT K, Gen.K19.buildAdjoint fieldOps p.a11 p.a21 p.a31 p.a12 p.a22 p.a32 p.a13 p.a23 p.a33 = .ok (tup q) ∧
      Gen.K19.times fieldOps p.a11 p.a21 p.a31 p.a12 p.a22 p.a32 p.a13 p.a23 p.a33
        q.a11 q.a21 q.a31 q.a12 q.a22 q.a32 q.a13 q.a23 q.a33 = .ok (tup ⟨p.det, 0, 0, 0, p.det, 0, 0, 0, p.det⟩) ∧
      Gen.K19.times fieldOps q.a11 q.a21 q.a31 q.a12 q.a22 q.a32 q.a13 q.a23 q.a33
        p.a11 p.a21 p.a31 p.a12 p.a22 p.a32 p.a13 p.a23 p.a33 = .ok (tup ⟨p.det, 0, 0, 0, p.det, 0, 0, 0, p.det⟩) := by
  refine ⟨p.buildAdjoint, k_buildAdjoint_eq _ fieldOps_fieldLike p, ?_, ?_⟩
  · rw [k_times_eq _ fieldOps_fieldLike, (adjoint_is_projective_inverse p).1]
  · rw [k_times_eq _ fieldOps_fieldLike, (adjoint_is_projective_inverse p).2]

when_kernel Gzx.Gen.K19.times in
/-- regenerated `TransformPoints` with the regenerated product `a.times(b)` = `b` first, then `a`, on one point with a
    finite intermediate image -/
theorem gen_times_is_composition (a b : PT K) (x y : K) (hb : b.denom x y ≠ 0) :
    ∃ c : PT K, Gen.K19.times fieldOps a.a11 a.a21 a.a31 a.a12 a.a22 a.a32 a.a13 a.a23 a.a33
        b.a11 b.a21 b.a31 b.a12 b.a22 b.a32 b.a13 b.a23 b.a33 = .ok (tup c) ∧
      Gen.K19.transformPoints fieldOps c.a11 c.a21 c.a31 c.a12 c.a22 c.a32 c.a13 c.a23 c.a33 [x, y] =
        (Gen.K19.transformPoints fieldOps b.a11 b.a21 b.a31 b.a12 b.a22 b.a32 b.a13 b.a23 b.a33 [x, y]).bind
          (Gen.K19.transformPoints fieldOps a.a11 a.a21 a.a31 a.a12 a.a22 a.a32 a.a13 a.a23 a.a33) := by
  refine ⟨a.times b, k_times_eq _ fieldOps_fieldLike a b, ?_⟩
  rw [k_transformPoints_eq _ fieldOps_fieldLike, k_transformPoints_eq _ fieldOps_fieldLike]
  simp only [Except.bind]
  rw [k_transformPoints_eq _ fieldOps_fieldLike]
  simp only [PT.transformPoints, times_is_composition a b x y hb]

/-- non-vacuity: the unit square itself over ℚ-like fields — identity coefficients, denominators 1 -/
example : sqDegenerate (0 : K) 0 1 0 1 1 0 1 = false := by simp [sqDegenerate]

end GzxM.K19
