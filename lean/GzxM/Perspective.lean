/-
  C19 — algebra of common/perspective_transform.go over an arbitrary field (in particular ℚ, the
  carrier the executable model and the driver use).  Needs Mathlib's `ring` / `field_simp`, hence this
  separate library; the driver never imports it.

  Model: Gzx/Model/Perspective.lean — the Go formulas verbatim, generic in the carrier.
  Go computes in float64; these theorems are about the exact formulas (tie by tolerance only).
-/
import Mathlib.Tactic.Ring
import Mathlib.Tactic.FieldSimp
import Mathlib.Tactic.LinearCombination
import Mathlib.Tactic.NormNum
import Gzx.Model.Perspective

namespace GzxM.Perspective
open Gzx.Perspective

variable {K : Type} [Field K] [DecidableEq K]
set_option linter.unusedSectionVars false

/-! ## composition -/

/-- homogeneous form of the denominator of a product -/
theorem times_denom (a b : PT K) (x y : K) (hb : b.denom x y ≠ 0) :
    (a.times b).denom x y = a.denom (b.apply x y).1 (b.apply x y).2 * b.denom x y := by
  simp only [PT.times, PT.denom, PT.apply] at *
  field_simp
  ring

theorem frac_comp (p q r X Y D : K) (hD : D ≠ 0) :
    p * (X / D) + q * (Y / D) + r = (p * X + q * Y + r * D) / D := by
  field_simp

/-- `a.times(b)` is "first `b`, then `a`": TransformPoints of the product equals TransformPoints of `a`
    applied to TransformPoints of `b`, wherever `b`'s denominator does not vanish.
    (`QuadrilateralToQuadrilateral` is `sToQ.times(qToS)`: first quadrilateral→square, then square→quadrilateral.) -/
theorem times_is_composition (a b : PT K) (x y : K) (hb : b.denom x y ≠ 0) :
    (a.times b).apply x y = a.apply (b.apply x y).1 (b.apply x y).2 := by
  have hb' : b.a13 * x + b.a23 * y + b.a33 ≠ 0 := hb
  simp only [PT.apply, PT.times, PT.denom]
  rw [frac_comp _ _ _ _ _ _ hb', frac_comp _ _ _ _ _ _ hb', frac_comp _ _ _ _ _ _ hb',
    div_div_div_cancel_right₀ hb', div_div_div_cancel_right₀ hb']
  refine Prod.ext ?_ ?_ <;> simp only <;> congr 1 <;> ring

/-- the same for whole interleaved slices, as `TransformPoints` processes them -/
theorem times_is_composition_points (a b : PT K) : ∀ (pts pts1 : List K),
    b.transformPoints? pts = some pts1 → (a.times b).transformPoints pts = a.transformPoints pts1
  | [], pts1, hb => by
    simp only [PT.transformPoints?] at hb; cases hb; simp [PT.transformPoints]
  | [x], pts1, hb => by
    simp only [PT.transformPoints?] at hb; cases hb; simp [PT.transformPoints]
  | x :: y :: rest, pts1, hb => by
    simp only [PT.transformPoints?] at hb
    cases h1 : b.apply? x y with
    | none => simp [h1] at hb
    | some q =>
      cases h2 : b.transformPoints? rest with
      | none => simp [h1, h2] at hb
      | some r =>
        simp only [h1, h2] at hb
        cases hb
        have hd : b.denom x y ≠ 0 := by
          intro h0; simp [PT.apply?, h0] at h1
        have hq : q = b.apply x y := by
          simp only [PT.apply?, hd, if_false] at h1; exact (Option.some.inj h1).symm
        subst hq
        simp only [PT.transformPoints, times_is_composition a b x y hd,
          times_is_composition_points a b rest r h2]

/-! ## the adjoint as projective inverse -/

/-- `A · adj A = det A • I` and `adj A · A = det A • I`, entry by entry -/
theorem adjoint_is_projective_inverse (p : PT K) :
    p.times p.buildAdjoint = ⟨p.det, 0, 0, 0, p.det, 0, 0, 0, p.det⟩ ∧
    p.buildAdjoint.times p = ⟨p.det, 0, 0, 0, p.det, 0, 0, 0, p.det⟩ := by
  constructor <;>
  · simp only [PT.times, PT.buildAdjoint, PT.det, PT.mk.injEq]
    refine ⟨?_, ?_, ?_, ?_, ?_, ?_, ?_, ?_, ?_⟩ <;> ring

/-- denominator of the adjoint at an image point -/
theorem adjoint_denom (p : PT K) (x y : K) (hd : p.denom x y ≠ 0) :
    p.buildAdjoint.denom (p.apply x y).1 (p.apply x y).2 = p.det / p.denom x y := by
  rw [eq_div_iff hd, ← times_denom _ _ _ _ hd, (adjoint_is_projective_inverse p).2]
  simp [PT.denom]

/-- hence `buildAdjoint` undoes the transform on points (this is why QuadrilateralToSquare may use it
    "as the inverse"): for an invertible coefficient matrix and a finite image point -/
theorem adjoint_inverts (p : PT K) (x y : K) (hdet : p.det ≠ 0) (hd : p.denom x y ≠ 0) :
    p.buildAdjoint.apply (p.apply x y).1 (p.apply x y).2 = (x, y) := by
  rw [← times_is_composition _ _ _ _ hd, (adjoint_is_projective_inverse p).2]
  simp only [PT.apply, PT.denom, zero_mul, add_zero, zero_add]
  exact Prod.ext (mul_div_cancel_left₀ x hdet) (mul_div_cancel_left₀ y hdet)

/-! ## square → quadrilateral -/

/-- the non-affine branch, with the two solved coefficients abstracted by the equations they satisfy -/
theorem persp_corners (x0 y0 x1 y1 x2 y2 x3 y3 g h : K)
    (e1 : g * (x1 - x2) + h * (x3 - x2) = x0 - x1 + x2 - x3)
    (e2 : g * (y1 - y2) + h * (y3 - y2) = y0 - y1 + y2 - y3)
    (S : PT K)
    (hS : S = ⟨x1 - x0 + g * x1, x3 - x0 + h * x3, x0, y1 - y0 + g * y1, y3 - y0 + h * y3, y0, g, h, 1⟩)
    (h10 : S.denom 1 0 ≠ 0) (h11 : S.denom 1 1 ≠ 0) (h01 : S.denom 0 1 ≠ 0) :
    S.apply 0 0 = (x0, y0) ∧ S.apply 1 0 = (x1, y1) ∧ S.apply 1 1 = (x2, y2) ∧ S.apply 0 1 = (x3, y3) := by
  subst hS
  simp only [PT.denom, PT.apply] at *
  refine ⟨?_, ?_, ?_, ?_⟩
  · refine Prod.ext ?_ ?_ <;> simp
  · refine Prod.ext ?_ ?_ <;> simp only <;> rw [div_eq_iff h10] <;> ring
  · refine Prod.ext ?_ ?_ <;> simp only <;> rw [div_eq_iff h11]
    · linear_combination e1
    · linear_combination e2
  · refine Prod.ext ?_ ?_ <;> simp only <;> rw [div_eq_iff h01] <;> ring

/-- Cramer's rule for the two coefficients `a13`, `a23` the non-affine branch solves for -/
theorem cramer (dx1 dx2 dy1 dy2 dx3 dy3 D : K) (hdef : D = dx1 * dy2 - dx2 * dy1) (hD : D ≠ 0) :
    (dx3 * dy2 - dx2 * dy3) / D * dx1 + (dx1 * dy3 - dx3 * dy1) / D * dx2 = dx3 ∧
    (dx3 * dy2 - dx2 * dy3) / D * dy1 + (dx1 * dy3 - dx3 * dy1) / D * dy2 = dy3 := by
  constructor
  · rw [div_mul_eq_mul_div, div_mul_eq_mul_div, ← add_div, div_eq_iff hD, hdef]; ring
  · rw [div_mul_eq_mul_div, div_mul_eq_mul_div, ← add_div, div_eq_iff hD, hdef]; ring

/-- `SquareToQuadrilateral(x0,y0,…,x3,y3)` maps (0,0),(1,0),(1,1),(0,1) onto the four given points,
    provided no division by zero happens: `sqDegenerate = false` (the non-affine branch does not divide
    by zero) and the denominators at the three other corners do not vanish (at (0,0) it is 1). -/
theorem squareToQuad_corners (x0 y0 x1 y1 x2 y2 x3 y3 : K)
    (hdeg : sqDegenerate x0 y0 x1 y1 x2 y2 x3 y3 = false)
    (h10 : (squareToQuadrilateral x0 y0 x1 y1 x2 y2 x3 y3).denom 1 0 ≠ 0)
    (h11 : (squareToQuadrilateral x0 y0 x1 y1 x2 y2 x3 y3).denom 1 1 ≠ 0)
    (h01 : (squareToQuadrilateral x0 y0 x1 y1 x2 y2 x3 y3).denom 0 1 ≠ 0) :
    (squareToQuadrilateral x0 y0 x1 y1 x2 y2 x3 y3).apply 0 0 = (x0, y0) ∧
    (squareToQuadrilateral x0 y0 x1 y1 x2 y2 x3 y3).apply 1 0 = (x1, y1) ∧
    (squareToQuadrilateral x0 y0 x1 y1 x2 y2 x3 y3).apply 1 1 = (x2, y2) ∧
    (squareToQuadrilateral x0 y0 x1 y1 x2 y2 x3 y3).apply 0 1 = (x3, y3) := by
  by_cases haff : x0 - x1 + x2 - x3 = 0 ∧ y0 - y1 + y2 - y3 = 0
  · -- affine branch
    have hx : x3 = x0 - x1 + x2 := by linear_combination (-1 : K) * haff.1
    have hy : y3 = y0 - y1 + y2 := by linear_combination (-1 : K) * haff.2
    simp only [squareToQuadrilateral, haff, and_self, if_true, PT.apply, PT.denom]
    refine ⟨?_, ?_, ?_, ?_⟩ <;> refine Prod.ext ?_ ?_ <;> simp [hx, hy] <;> ring
  · have hden : sqDenominator x1 y1 x2 y2 x3 y3 ≠ 0 := by
      simpa [sqDegenerate, haff] using hdeg
    have hden' : (x1 - x2) * (y3 - y2) - (x3 - x2) * (y1 - y2) ≠ 0 := hden
    refine persp_corners x0 y0 x1 y1 x2 y2 x3 y3
      (((x0 - x1 + x2 - x3) * (y3 - y2) - (x3 - x2) * (y0 - y1 + y2 - y3)) / ((x1 - x2) * (y3 - y2) - (x3 - x2) * (y1 - y2)))
      (((x1 - x2) * (y0 - y1 + y2 - y3) - (x0 - x1 + x2 - x3) * (y1 - y2)) / ((x1 - x2) * (y3 - y2) - (x3 - x2) * (y1 - y2)))
      ?_ ?_ _ ?_ h10 h11 h01
    · exact (cramer (x1 - x2) (x3 - x2) (y1 - y2) (y3 - y2) (x0 - x1 + x2 - x3) (y0 - y1 + y2 - y3) _ rfl hden').1
    · exact (cramer (x1 - x2) (x3 - x2) (y1 - y2) (y3 - y2) (x0 - x1 + x2 - x3) (y0 - y1 + y2 - y3) _ rfl hden').2
    · simp only [squareToQuadrilateral, haff, if_false]

/-- non-degeneracy of a quadrilateral as far as `SquareToQuadrilateral` is concerned: no division by
    zero in the construction and finite images of the four corners of the unit square -/
structure Nondeg (x0 y0 x1 y1 x2 y2 x3 y3 : K) : Prop where
  hdeg : sqDegenerate x0 y0 x1 y1 x2 y2 x3 y3 = false
  h10 : (squareToQuadrilateral x0 y0 x1 y1 x2 y2 x3 y3).denom 1 0 ≠ 0
  h11 : (squareToQuadrilateral x0 y0 x1 y1 x2 y2 x3 y3).denom 1 1 ≠ 0
  h01 : (squareToQuadrilateral x0 y0 x1 y1 x2 y2 x3 y3).denom 0 1 ≠ 0

theorem squareToQuad_denom00 (x0 y0 x1 y1 x2 y2 x3 y3 : K) :
    (squareToQuadrilateral x0 y0 x1 y1 x2 y2 x3 y3).denom 0 0 = 1 := by
  simp only [squareToQuadrilateral, PT.denom]
  split <;> simp

/-! ## quadrilateral → square, quadrilateral → quadrilateral -/

/-- one corner through `S'.times(S.buildAdjoint)` -/
theorem q2q_corner (S S' : PT K) (cx cy : K) (p p' : K × K) (hdet : S.det ≠ 0)
    (hd : S.denom cx cy ≠ 0) (hp : S.apply cx cy = p) (hp' : S'.apply cx cy = p') :
    (S'.times S.buildAdjoint).apply p.1 p.2 = p' ∧
    (S'.times S.buildAdjoint).denom p.1 p.2 = S'.denom cx cy * (S.det / S.denom cx cy) := by
  subst hp hp'
  have hq : S.buildAdjoint.denom (S.apply cx cy).1 (S.apply cx cy).2 ≠ 0 := by
    rw [adjoint_denom S cx cy hd]; exact div_ne_zero hdet hd
  constructor
  · rw [times_is_composition _ _ _ _ hq, adjoint_inverts S cx cy hdet hd]
  · rw [times_denom _ _ _ _ hq, adjoint_inverts S cx cy hdet hd, adjoint_denom S cx cy hd]

/-- `QuadrilateralToSquare` maps the four given points onto (0,0),(1,0),(1,1),(0,1) — "the adjoint
    serves as the inverse" — for a non-degenerate quadrilateral whose coefficient matrix is invertible. -/
theorem quadToSquare_corners (x0 y0 x1 y1 x2 y2 x3 y3 : K) (hn : Nondeg x0 y0 x1 y1 x2 y2 x3 y3)
    (hdet : (squareToQuadrilateral x0 y0 x1 y1 x2 y2 x3 y3).det ≠ 0) :
    (quadrilateralToSquare x0 y0 x1 y1 x2 y2 x3 y3).apply x0 y0 = (0, 0) ∧
    (quadrilateralToSquare x0 y0 x1 y1 x2 y2 x3 y3).apply x1 y1 = (1, 0) ∧
    (quadrilateralToSquare x0 y0 x1 y1 x2 y2 x3 y3).apply x2 y2 = (1, 1) ∧
    (quadrilateralToSquare x0 y0 x1 y1 x2 y2 x3 y3).apply x3 y3 = (0, 1) := by
  obtain ⟨c00, c10, c11, c01⟩ := squareToQuad_corners x0 y0 x1 y1 x2 y2 x3 y3 hn.hdeg hn.h10 hn.h11 hn.h01
  have h00 : (squareToQuadrilateral x0 y0 x1 y1 x2 y2 x3 y3).denom 0 0 ≠ 0 := by
    rw [squareToQuad_denom00]; exact one_ne_zero
  unfold quadrilateralToSquare
  refine ⟨?_, ?_, ?_, ?_⟩
  · have := adjoint_inverts _ 0 0 hdet h00; rwa [c00] at this
  · have := adjoint_inverts _ 1 0 hdet hn.h10; rwa [c10] at this
  · have := adjoint_inverts _ 1 1 hdet hn.h11; rwa [c11] at this
  · have := adjoint_inverts _ 0 1 hdet hn.h01; rwa [c01] at this

/-- "The transform built from four source and four destination points maps each source point onto its
    destination": `QuadrilateralToQuadrilateral(src…, dst…)` sends (xi,yi) to (xi',yi'), i = 0..3, for
    non-degenerate quadrilaterals (source matrix invertible). -/
theorem quadToQuad_maps_corners (x0 y0 x1 y1 x2 y2 x3 y3 x0p y0p x1p y1p x2p y2p x3p y3p : K)
    (hs : Nondeg x0 y0 x1 y1 x2 y2 x3 y3)
    (hdet : (squareToQuadrilateral x0 y0 x1 y1 x2 y2 x3 y3).det ≠ 0)
    (hd : Nondeg x0p y0p x1p y1p x2p y2p x3p y3p) :
    let T := quadrilateralToQuadrilateral x0 y0 x1 y1 x2 y2 x3 y3 x0p y0p x1p y1p x2p y2p x3p y3p
    T.apply x0 y0 = (x0p, y0p) ∧ T.apply x1 y1 = (x1p, y1p) ∧
    T.apply x2 y2 = (x2p, y2p) ∧ T.apply x3 y3 = (x3p, y3p) := by
  obtain ⟨c00, c10, c11, c01⟩ := squareToQuad_corners x0 y0 x1 y1 x2 y2 x3 y3 hs.hdeg hs.h10 hs.h11 hs.h01
  obtain ⟨d00, d10, d11, d01⟩ := squareToQuad_corners x0p y0p x1p y1p x2p y2p x3p y3p hd.hdeg hd.h10 hd.h11 hd.h01
  have h00 : (squareToQuadrilateral x0 y0 x1 y1 x2 y2 x3 y3).denom 0 0 ≠ 0 := by
    rw [squareToQuad_denom00]; exact one_ne_zero
  simp only [quadrilateralToQuadrilateral, quadrilateralToSquare]
  exact ⟨(q2q_corner _ _ 0 0 _ _ hdet h00 c00 d00).1, (q2q_corner _ _ 1 0 _ _ hdet hs.h10 c10 d10).1,
    (q2q_corner _ _ 1 1 _ _ hdet hs.h11 c11 d11).1, (q2q_corner _ _ 0 1 _ _ hdet hs.h01 c01 d01).1⟩

/-! ## uniqueness -/

/-- scalar multiple of a coefficient matrix -/
def scale (c : K) (p : PT K) : PT K :=
  ⟨c * p.a11, c * p.a21, c * p.a31, c * p.a12, c * p.a22, c * p.a32, c * p.a13, c * p.a23, c * p.a33⟩

/-- proportional coefficient matrices are the same map -/
theorem scale_apply (c : K) (hc : c ≠ 0) (p : PT K) (x y : K) : (scale c p).apply x y = p.apply x y := by
  simp only [scale, PT.apply, PT.denom]
  have h1 : c * p.a11 * x + c * p.a21 * y + c * p.a31 = c * (p.a11 * x + p.a21 * y + p.a31) := by ring
  have h2 : c * p.a12 * x + c * p.a22 * y + c * p.a32 = c * (p.a12 * x + p.a22 * y + p.a32) := by ring
  have h3 : c * p.a13 * x + c * p.a23 * y + c * p.a33 = c * (p.a13 * x + p.a23 * y + p.a33) := by ring
  rw [h1, h2, h3, mul_div_mul_left _ _ hc, mul_div_mul_left _ _ hc]

theorem times_assoc (a b c : PT K) : (a.times b).times c = a.times (b.times c) := by
  simp only [PT.times, PT.mk.injEq]
  refine ⟨?_, ?_, ?_, ?_, ?_, ?_, ?_, ?_, ?_⟩ <;> ring

theorem diag_times (d : K) (p : PT K) : (⟨d, 0, 0, 0, d, 0, 0, 0, d⟩ : PT K).times p = scale d p := by
  simp only [PT.times, scale, PT.mk.injEq]
  refine ⟨?_, ?_, ?_, ?_, ?_, ?_, ?_, ?_, ?_⟩ <;> ring

theorem times_diag (d : K) (p : PT K) : p.times (⟨d, 0, 0, 0, d, 0, 0, 0, d⟩ : PT K) = scale d p := by
  simp only [PT.times, scale, PT.mk.injEq]
  refine ⟨?_, ?_, ?_, ?_, ?_, ?_, ?_, ?_, ?_⟩ <;> ring

theorem times_scale (d : K) (a b : PT K) : a.times (scale d b) = scale d (a.times b) := by
  simp only [PT.times, scale, PT.mk.injEq]
  refine ⟨?_, ?_, ?_, ?_, ?_, ?_, ?_, ?_, ?_⟩ <;> ring

theorem scale_scale (c d : K) (p : PT K) : scale c (scale d p) = scale (c * d) p := by
  simp only [scale, PT.mk.injEq]
  refine ⟨?_, ?_, ?_, ?_, ?_, ?_, ?_, ?_, ?_⟩ <;> ring

/-- a transform that fixes the four corners of the unit square (finite images) is a multiple of the identity -/
theorem unit_square_fixed (N : PT K)
    (h00 : N.denom 0 0 ≠ 0) (h10 : N.denom 1 0 ≠ 0) (h11 : N.denom 1 1 ≠ 0) (h01 : N.denom 0 1 ≠ 0)
    (f00 : N.apply 0 0 = (0, 0)) (f10 : N.apply 1 0 = (1, 0)) (f11 : N.apply 1 1 = (1, 1))
    (f01 : N.apply 0 1 = (0, 1)) :
    N = ⟨N.a33, 0, 0, 0, N.a33, 0, 0, 0, N.a33⟩ ∧ N.a33 ≠ 0 := by
  simp only [PT.apply, Prod.mk.injEq] at f00 f10 f11 f01
  rw [div_eq_iff h00, div_eq_iff h00] at f00
  rw [div_eq_iff h10, div_eq_iff h10] at f10
  rw [div_eq_iff h11, div_eq_iff h11] at f11
  rw [div_eq_iff h01, div_eq_iff h01] at f01
  simp only [PT.denom] at *
  obtain ⟨a1, a2⟩ := f00
  obtain ⟨b1, b2⟩ := f10
  obtain ⟨c1, c2⟩ := f11
  obtain ⟨d1, d2⟩ := f01
  have e31 : N.a31 = 0 := by linear_combination a1
  have e32 : N.a32 = 0 := by linear_combination a2
  have e12 : N.a12 = 0 := by linear_combination b2 - a2
  have e21 : N.a21 = 0 := by linear_combination d1 - a1
  have e23 : N.a23 = 0 := by linear_combination b1 + d1 - a1 - c1
  have e13 : N.a13 = 0 := by linear_combination d2 + b2 - a2 - c2
  have e11 : N.a11 = N.a33 := by linear_combination b1 - a1 + e13
  have e22 : N.a22 = N.a33 := by linear_combination d2 - a2 + e23
  refine ⟨?_, ?_⟩
  · cases N
    simp only [PT.mk.injEq] at *
    exact ⟨e11, e21, e31, e12, e22, e32, e13, e23, trivial⟩
  · intro h0
    apply h00
    rw [h0]; ring

/-- "…and agrees everywhere with the unique projective map through them": ANY coefficient matrix `M`
    whose transform sends the four source points onto the four destination points (finite images) is a
    non-zero multiple of the matrix `QuadrilateralToQuadrilateral` builds, hence computes the same
    point for every (x, y). -/
theorem quadToQuad_unique (x0 y0 x1 y1 x2 y2 x3 y3 x0p y0p x1p y1p x2p y2p x3p y3p : K)
    (hs : Nondeg x0 y0 x1 y1 x2 y2 x3 y3)
    (hdet : (squareToQuadrilateral x0 y0 x1 y1 x2 y2 x3 y3).det ≠ 0)
    (hd : Nondeg x0p y0p x1p y1p x2p y2p x3p y3p)
    (hdetp : (squareToQuadrilateral x0p y0p x1p y1p x2p y2p x3p y3p).det ≠ 0)
    (M : PT K)
    (m0 : M.denom x0 y0 ≠ 0) (m1 : M.denom x1 y1 ≠ 0) (m2 : M.denom x2 y2 ≠ 0) (m3 : M.denom x3 y3 ≠ 0)
    (g0 : M.apply x0 y0 = (x0p, y0p)) (g1 : M.apply x1 y1 = (x1p, y1p))
    (g2 : M.apply x2 y2 = (x2p, y2p)) (g3 : M.apply x3 y3 = (x3p, y3p)) :
    let T := quadrilateralToQuadrilateral x0 y0 x1 y1 x2 y2 x3 y3 x0p y0p x1p y1p x2p y2p x3p y3p
    (∃ c : K, c ≠ 0 ∧ M = scale c T) ∧ ∀ x y : K, M.apply x y = T.apply x y := by
  intro T
  -- S, S' : the two square→quadrilateral matrices
  generalize hS : squareToQuadrilateral x0 y0 x1 y1 x2 y2 x3 y3 = S at *
  generalize hS' : squareToQuadrilateral x0p y0p x1p y1p x2p y2p x3p y3p = S' at *
  have hT : T = S'.times S.buildAdjoint := by
    simp only [T, quadrilateralToQuadrilateral, quadrilateralToSquare, hS, hS']
  obtain ⟨c00, c10, c11, c01⟩ := by
    have := squareToQuad_corners x0 y0 x1 y1 x2 y2 x3 y3 hs.hdeg hs.h10 hs.h11 hs.h01
    rwa [hS] at this
  obtain ⟨d00, d10, d11, d01⟩ := by
    have := squareToQuad_corners x0p y0p x1p y1p x2p y2p x3p y3p hd.hdeg hd.h10 hd.h11 hd.h01
    rwa [hS'] at this
  have s00 : S.denom 0 0 ≠ 0 := by rw [← hS, squareToQuad_denom00]; exact one_ne_zero
  have s00' : S'.denom 0 0 ≠ 0 := by rw [← hS', squareToQuad_denom00]; exact one_ne_zero
  have s10 := hs.h10; have s11 := hs.h11; have s01 := hs.h01
  have s10' := hd.h10; have s11' := hd.h11; have s01' := hd.h01
  rw [hS] at s10 s11 s01
  rw [hS'] at s10' s11' s01'
  -- N := adj S' · M · S fixes the unit square
  have corner : ∀ (cx cy : K) (p p' : K × K), S.denom cx cy ≠ 0 → S'.denom cx cy ≠ 0 →
      S.apply cx cy = p → S'.apply cx cy = p' → M.denom p.1 p.2 ≠ 0 → M.apply p.1 p.2 = p' →
      (S'.buildAdjoint.times (M.times S)).denom cx cy ≠ 0 ∧
      (S'.buildAdjoint.times (M.times S)).apply cx cy = (cx, cy) := by
    intro cx cy p p' hsd hsd' hp hp' hm hmp
    subst hp
    have e1 : (M.times S).denom cx cy ≠ 0 := by
      rw [times_denom _ _ _ _ hsd]; exact mul_ne_zero hm hsd
    have e2 : (M.times S).apply cx cy = p' := by
      rw [times_is_composition _ _ _ _ hsd]; exact hmp
    have e3 : S'.buildAdjoint.denom p'.1 p'.2 ≠ 0 := by
      rw [← hp', adjoint_denom S' cx cy hsd']; exact div_ne_zero hdetp hsd'
    constructor
    · rw [times_denom _ _ _ _ e1, e2]; exact mul_ne_zero e3 e1
    · rw [times_is_composition _ _ _ _ e1, e2, ← hp', adjoint_inverts S' cx cy hdetp hsd']
  obtain ⟨n00, f00⟩ := corner 0 0 _ _ s00 s00' c00 d00 m0 g0
  obtain ⟨n10, f10⟩ := corner 1 0 _ _ s10 s10' c10 d10 m1 g1
  obtain ⟨n11, f11⟩ := corner 1 1 _ _ s11 s11' c11 d11 m2 g2
  obtain ⟨n01, f01⟩ := corner 0 1 _ _ s01 s01' c01 d01 m3 g3
  obtain ⟨hN, hk⟩ := unit_square_fixed _ n00 n10 n11 n01 f00 f10 f11 f01
  generalize (S'.buildAdjoint.times (M.times S)).a33 = k at hN hk
  -- S' · N · adj S  computed in two ways
  have key : scale (S'.det * S.det) M = scale k T := by
    have lhs : S'.times ((S'.buildAdjoint.times (M.times S)).times S.buildAdjoint) = scale (S'.det * S.det) M := by
      rw [times_assoc, times_assoc, (adjoint_is_projective_inverse S).1, times_diag, times_scale,
        times_scale, ← times_assoc, (adjoint_is_projective_inverse S').1, diag_times, scale_scale, mul_comm]
    rw [← lhs, hN, diag_times, times_scale, hT]
  have hdd : S'.det * S.det ≠ 0 := mul_ne_zero hdetp hdet
  have hM : M = scale (k / (S'.det * S.det)) T := by
    have : scale (S'.det * S.det)⁻¹ (scale (S'.det * S.det) M) = scale (S'.det * S.det)⁻¹ (scale k T) := by
      rw [key]
    rw [scale_scale, scale_scale, inv_mul_cancel₀ hdd] at this
    have one : scale 1 M = M := by
      cases M; simp [scale]
    rw [one] at this
    rw [this]; congr 1; rw [div_eq_inv_mul]
  have hc : k / (S'.det * S.det) ≠ 0 := div_ne_zero hk hdd
  refine ⟨⟨_, hc, hM⟩, ?_⟩
  intro x y
  rw [hM, scale_apply _ hc]

/-! ## non-vacuity over ℚ -/

/-- a perspective quadrilateral (0,0),(4,0),(3,3),(0,2): not a parallelogram, all hypotheses hold -/
example : Nondeg (0 : ℚ) 0 4 0 3 3 0 2 ∧ (squareToQuadrilateral (0 : ℚ) 0 4 0 3 3 0 2).det ≠ 0 := by
  refine ⟨⟨?_, ?_, ?_, ?_⟩, ?_⟩ <;> simp [sqDegenerate, sqDenominator, squareToQuadrilateral, PT.denom, PT.det] <;> norm_num

/-- an affine one (parallelogram) -/
example : Nondeg (1 : ℚ) 1 5 2 6 5 2 4 ∧ (squareToQuadrilateral (1 : ℚ) 1 5 2 6 5 2 4).det ≠ 0 := by
  refine ⟨⟨?_, ?_, ?_, ?_⟩, ?_⟩ <;> simp [sqDegenerate, sqDenominator, squareToQuadrilateral, PT.denom, PT.det] <;> norm_num

end GzxM.Perspective
