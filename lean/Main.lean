import Gzx.Driver.All

/-- line protocol: `<suite> <cmd> <args...>` in, one line out -/
partial def loop (hin hout : IO.FS.Stream) : IO Unit := do
  let line ← hin.getLine
  if line.isEmpty then return ()
  let l := (line.dropEndWhile (fun c => c == '\n' || c == '\r')).toString
  if l == "#flush" then hout.flush
  else hout.putStrLn (Gzx.Driver.dispatch l)
  loop hin hout

def main : IO Unit := do
  let hin ← IO.getStdin
  let hout ← IO.getStdout
  loop hin hout
  hout.flush
