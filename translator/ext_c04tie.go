// Value-passing target of the translator (work package c04tie; kinds `ambient` and `funcv`).
//
//	ambient <LeanModule> <LeanStructure> <import/path> <GoStruct>
//	    declares GoStruct an AMBIENT object of the module: within one translated computation every value of type
//	    *GoStruct is the same immutable object.  Emits `structure <LeanStructure>` with one field per translatable Go
//	    field; every `funcv` definition that touches such a value takes `(gf : <LeanStructure>)`.  Comparisons of two
//	    ambient pointers are `true`; a write to a field of the ambient object is outside the subset.
//	funcv  <LeanModule> <leanName> <import/path> <GoFunc | Recv.Method>
//	    a function / method over integers, booleans, []int, error values and POINTERS TO IMMUTABLE STRUCT VALUES:
//	      * a struct all of whose fields but one are ambient pointers is represented by its one remaining field
//	        (`*GenericGFPoly` = its coefficient list, `*ReedSolomonEncoder` = its generator cache); a struct with only
//	        ambient fields has no representation at all (`*ReedSolomonDecoder`); `nil` of such a type is the zero value;
//	        `&T{…}` is the value of that field (zero value when omitted); `x.f = v` on a local made by `&T{…}` or on a
//	        pointer PARAMETER rebinds it, and a pointer / slice parameter that is written is returned after the Go results;
//	      * locals of these types, `[]*T` as `List (List Int)` (`append`, checked index, `len`);
//	      * `error` / error interfaces as Bool (true = non-nil): `nil`, error variables, `errors.New/Errorf`, in-repo
//	        functions that return a struct literal; `e != nil`; multi-valued calls `x, e := F(…)`, `return F(…)`;
//	        named results (zero-initialised);
//	      * calls of functions / methods translated EARLIER into the same module (each call is a checked operation; fuel
//	        is handed down); trivial getters (`return recv.field`) are read as the field;
//	      * counted loops (`GoM.loop`), `for … range xs` (`GoM.forRange`), every other `for` as `GoM.whileLoop` on fuel
//	        (the definition then takes `(fuel : Nat)` first); loop bodies are inline lambdas over the tuple of the outer
//	        variables they assign; an `if` that falls through is one control value joined by `thenR` / `thenC`;
//	      * `make`, `copy(dst, src)`, `copy(dst[a:b], src)`, `xs[a:b]`, `[]int{…}`, checked `/ %`, short-circuit operators
//	        whose right operand contains a checked operation (evaluated only when needed).
//	    Not in the subset (=> no definition, `untranslatable`): break / continue / switch / goto / defer / closures, writes
//	    through an alias (a slice or struct that is neither a parameter nor made locally), maps, channels, floats.
//	    Value semantics: a slice handed to a constructor is not read through the alias after a later write (not checked).
package main

import (
	"fmt"
	"go/ast"
	"go/constant"
	"go/token"
	"go/types"
	"strings"

	"golang.org/x/tools/go/packages"
)

type vAmbient struct {
	lean   string
	named  *types.Named
	fields map[string]string // Go field -> Lean type
}

var vAmbients = map[string]*vAmbient{} // module -> ambient type

type vFunc struct {
	lean    string
	fuel    bool
	gf      bool
	params  []string // Lean type per Go parameter (receiver first); "" = no representation
	results []string // Lean types of the Go results
	outs    []int    // parameter positions returned after the results
}

var vCallees = map[string]*vFunc{} // "<module>|<types.Func.FullName>"

type vCtx struct {
	p        *packages.Package
	module   string
	lean     string
	amb      *vAmbient
	objName  map[types.Object]string
	nameCnt  map[string]int
	vtype    map[string]string // Lean variable -> Lean type
	order    []string          // Lean variables in declaration order
	writable map[string]bool   // slices / structs made locally or parameters: element / field writes allowed
	params   []string          // Lean variables that are parameters, in order
	pre      []mbind
	tmp      int
	cmode    bool
	state    []string
	retTypes []string
	resTypes []string
	outs     []string
	usesFuel bool
	usesGF   bool
	void     bool
}

const vNone = "" // Lean type of a value without representation (ambient pointer, struct of ambient fields)

func (vc *vCtx) isAmbientType(t types.Type) bool {
	if vc.amb == nil || t == nil {
		return false
	}
	if pt, ok := t.Underlying().(*types.Pointer); ok {
		t = pt.Elem()
	}
	n, ok := t.(*types.Named)
	return ok && n.Obj() == vc.amb.named.Obj()
}

// valueField: for a (pointer to a) struct all of whose fields but at most one are ambient: index of that field (-1: none)
func (vc *vCtx) valueField(t types.Type) (*types.Struct, int, bool) {
	if pt, ok := t.Underlying().(*types.Pointer); ok {
		t = pt.Elem()
	}
	if _, ok := t.(*types.Named); !ok || vc.isAmbientType(t) {
		return nil, 0, false
	}
	st, ok := t.Underlying().(*types.Struct)
	if !ok {
		return nil, 0, false
	}
	at := -1
	for j := 0; j < st.NumFields(); j++ {
		if vc.isAmbientType(st.Field(j).Type()) {
			continue
		}
		if at >= 0 {
			return nil, 0, false
		}
		at = j
	}
	return st, at, true
}

func (vc *vCtx) vt(t types.Type) (string, error) { return vc.vtDepth(t, 0) }

func (vc *vCtx) vtDepth(t types.Type, depth int) (string, error) {
	if t == nil || depth > 6 {
		return "", fmt.Errorf("unsupported type")
	}
	if lt, err := leanType(t); err == nil {
		return lt, nil
	}
	if _, isIface := t.Underlying().(*types.Interface); isIface && isErrorType(t) {
		return "Bool", nil
	}
	if vc.isAmbientType(t) {
		return vNone, nil
	}
	switch u := t.Underlying().(type) {
	case *types.Slice:
		et, err := vc.vtDepth(u.Elem(), depth+1)
		if err != nil {
			return "", err
		}
		switch et {
		case "Int":
			return "List Int", nil
		case "List Int":
			return "List (List Int)", nil
		}
	case *types.Pointer:
		if st, at, ok := vc.valueField(t); ok {
			if at < 0 {
				return vNone, nil
			}
			return vc.vtDepth(st.Field(at).Type(), depth+1)
		}
	}
	return "", fmt.Errorf("unsupported type %s", t)
}

func vZero(lt string) string {
	switch lt {
	case "Int":
		return "0"
	case "Bool":
		return "false"
	}
	return "[]"
}

func (vc *vCtx) declare(obj types.Object, lt string) string {
	base := leanIdent(obj.Name())
	if base == "gf" || strings.HasPrefix(base, "tmp") {
		base += "_go"
	}
	n := base
	if c := vc.nameCnt[base]; c > 0 {
		n = fmt.Sprintf("%s_%d", strings.Trim(base, "«»"), c)
	}
	vc.nameCnt[base]++
	vc.objName[obj] = n
	vc.vtype[n] = lt
	vc.order = append(vc.order, n)
	return n
}

func (vc *vCtx) bind(expr string) string {
	vc.tmp++
	n := fmt.Sprintf("tmp%d", vc.tmp)
	vc.pre = append(vc.pre, mbind{n, expr})
	return n
}

func (vc *vCtx) try() string {
	if vc.cmode {
		return "Gzx.GoM.tryC"
	}
	return "Gzx.GoM.tryR"
}

func (vc *vCtx) flush(lvl int) string {
	var sb strings.Builder
	for _, b := range vc.pre {
		fmt.Fprintf(&sb, "%s%s (%s) fun %s =>\n", ind(lvl), vc.try(), b.expr, b.name)
	}
	vc.pre = nil
	return sb.String()
}

// letLine: `let x : T := v` (the type is spelled out: `[]` alone does not determine it)
func (vc *vCtx) letLine(lvl int, n, v string) string {
	if lt, ok := vc.vtype[n]; ok && lt != vNone {
		return fmt.Sprintf("%slet %s : %s := %s\n", ind(lvl), n, lt, v)
	}
	return fmt.Sprintf("%slet %s := %s\n", ind(lvl), n, v)
}

func vProj(k, n int) string {
	if n == 1 {
		return "st"
	}
	s := "st"
	for i := 0; i < k; i++ {
		s += ".2"
	}
	if k < n-1 {
		s += ".1"
	}
	return s
}

func projOf(v string, k, n int) string {
	return strings.Replace(vProj(k, n), "st", v, 1)
}

func vTuple(vs []string) string {
	if len(vs) == 0 {
		return "()"
	}
	if len(vs) == 1 {
		return vs[0]
	}
	return "(" + strings.Join(vs, ", ") + ")"
}

func (vc *vCtx) sigma(vs []string) string {
	if len(vs) == 0 {
		return "Unit"
	}
	var ts []string
	for _, v := range vs {
		ts = append(ts, vc.vtype[v])
	}
	return strings.Join(ts, " × ")
}

func (vc *vCtx) rho() string { return strings.Join(vc.retTypes, " × ") }

// unpack: `let a := st.1 …` for the state variables vs
func (vc *vCtx) unpack(vs []string, lvl int) string {
	var sb strings.Builder
	if len(vs) <= 1 {
		return ""
	}
	for k, v := range vs {
		sb.WriteString(vc.letLine(lvl, v, vProj(k, len(vs))))
	}
	return sb.String()
}

func stVar(vs []string) string {
	if len(vs) == 1 {
		return vs[0]
	}
	return "st"
}

// ---------- expressions ----------

// ambientExpr: is ex an expression denoting the ambient object?
func (vc *vCtx) isAmbientExpr(ex ast.Expr) bool {
	return vc.isAmbientType(vc.p.TypesInfo.TypeOf(ex))
}

// rootVar: the Lean variable behind an identifier
func (vc *vCtx) varOf(id *ast.Ident) (string, bool) {
	obj := vc.p.TypesInfo.Uses[id]
	if obj == nil {
		obj = vc.p.TypesInfo.Defs[id]
	}
	if obj == nil {
		return "", false
	}
	n, ok := vc.objName[obj]
	return n, ok
}

func isNilIdent(ex ast.Expr) bool {
	id, ok := ex.(*ast.Ident)
	return ok && id.Name == "nil"
}

// ex translates an expression with a representation; want = expected Lean type ("" = from the expression's own type)
func (vc *vCtx) ex(e ast.Expr, want string) (string, error) {
	if tv, ok := vc.p.TypesInfo.Types[e]; ok && tv.Value != nil {
		switch tv.Value.Kind() {
		case constant.Int:
			s := tv.Value.ExactString()
			if strings.HasPrefix(s, "-") {
				return "(" + s + ")", nil
			}
			return s, nil
		case constant.Bool:
			if constant.BoolVal(tv.Value) {
				return "true", nil
			}
			return "false", nil
		}
	}
	nodes++
	switch x := e.(type) {
	case *ast.ParenExpr:
		return vc.ex(x.X, want)
	case *ast.BasicLit: // synthetic literals (x++ as x += 1)
		if x.Kind == token.INT {
			return x.Value, nil
		}
		return "", fmt.Errorf("literal %s", x.Value)
	case *ast.Ident:
		if x.Name == "nil" {
			if want == "" {
				return "", fmt.Errorf("nil without a type")
			}
			return vZero(want), nil
		}
		if n, ok := vc.varOf(x); ok {
			if vc.vtype[n] == vNone {
				return "", fmt.Errorf("%s has no representation", x.Name)
			}
			return n, nil
		}
		return "", fmt.Errorf("free identifier %s", x.Name)
	case *ast.SelectorExpr:
		return vc.selector(x)
	case *ast.StarExpr:
		return "", fmt.Errorf("pointer dereference")
	case *ast.UnaryExpr:
		switch x.Op {
		case token.AND:
			if cl, ok := x.X.(*ast.CompositeLit); ok {
				return vc.structLit(cl)
			}
			return "", fmt.Errorf("address-of")
		case token.SUB:
			a, err := vc.ex(x.X, "Int")
			return "(- " + a + ")", err
		case token.ADD:
			return vc.ex(x.X, "Int")
		case token.NOT:
			a, err := vc.ex(x.X, "Bool")
			return "(!" + a + ")", err
		case token.XOR:
			if unsignedBits(vc.p.TypesInfo.TypeOf(x)) > 0 {
				return "", fmt.Errorf("unsigned complement")
			}
			a, err := vc.ex(x.X, "Int")
			return "(Gzx.GoVal.inot " + a + ")", err
		}
		return "", fmt.Errorf("unsupported unary %s", x.Op)
	case *ast.BinaryExpr:
		return vc.binary(x)
	case *ast.IndexExpr:
		bt, err := vc.vt(vc.p.TypesInfo.TypeOf(x.X))
		if err != nil {
			return "", err
		}
		base, err := vc.ex(x.X, bt)
		if err != nil {
			return "", err
		}
		i, err := vc.ex(x.Index, "Int")
		if err != nil {
			return "", err
		}
		switch bt {
		case "List Int":
			return vc.bind(fmt.Sprintf("Gzx.GoM.idx %s %s", base, i)), nil
		case "List (List Int)":
			return vc.bind(fmt.Sprintf("Gzx.GoM.idxL %s %s", base, i)), nil
		}
		return "", fmt.Errorf("index of %s", bt)
	case *ast.SliceExpr:
		if x.Slice3 {
			return "", fmt.Errorf("3-index slice")
		}
		bt, err := vc.vt(vc.p.TypesInfo.TypeOf(x.X))
		if err != nil || bt != "List Int" {
			return "", fmt.Errorf("slice expression on %s", bt)
		}
		base, err := vc.ex(x.X, bt)
		if err != nil {
			return "", err
		}
		lo, hi := "0", "(Gzx.GoM.len "+base+")"
		if x.Low != nil {
			if lo, err = vc.ex(x.Low, "Int"); err != nil {
				return "", err
			}
		}
		if x.High != nil {
			if hi, err = vc.ex(x.High, "Int"); err != nil {
				return "", err
			}
		}
		return vc.bind(fmt.Sprintf("Gzx.GoM.slice %s %s %s", base, lo, hi)), nil
	case *ast.CompositeLit:
		lt, err := vc.vt(vc.p.TypesInfo.TypeOf(x))
		if err != nil {
			return "", err
		}
		if _, isSlice := vc.p.TypesInfo.TypeOf(x).Underlying().(*types.Slice); !isSlice {
			return "", fmt.Errorf("composite literal of a non-slice")
		}
		et := "Int"
		if lt == "List (List Int)" {
			et = "List Int"
		}
		var els []string
		for _, el := range x.Elts {
			if _, kv := el.(*ast.KeyValueExpr); kv {
				return "", fmt.Errorf("keyed slice literal")
			}
			s, err := vc.ex(el, et)
			if err != nil {
				return "", err
			}
			els = append(els, s)
		}
		return "[" + strings.Join(els, ", ") + "]", nil
	case *ast.CallExpr:
		rs, err := vc.call(x)
		if err != nil {
			return "", err
		}
		if len(rs) != 1 {
			return "", fmt.Errorf("call with %d values in an expression", len(rs))
		}
		return rs[0], nil
	}
	return "", fmt.Errorf("unsupported expression %T", e)
}

// structLit: `&T{…}` / `T{…}` of a struct represented by its one non-ambient field
func (vc *vCtx) structLit(cl *ast.CompositeLit) (string, error) {
	t := vc.p.TypesInfo.TypeOf(cl)
	st, at, ok := vc.valueField(t)
	if !ok || at < 0 {
		return "", fmt.Errorf("composite literal of %s", t)
	}
	lt, err := vc.vt(st.Field(at).Type())
	if err != nil {
		return "", err
	}
	val := vZero(lt)
	for j, el := range cl.Elts {
		if kv, isKV := el.(*ast.KeyValueExpr); isKV {
			k, _ := kv.Key.(*ast.Ident)
			if k != nil && k.Name == st.Field(at).Name() {
				if val, err = vc.ex(kv.Value, lt); err != nil {
					return "", err
				}
			} else if k == nil || !vc.isAmbientExpr(kv.Value) {
				return "", fmt.Errorf("unsupported field in literal of %s", t)
			}
		} else if j == at {
			if val, err = vc.ex(el, lt); err != nil {
				return "", err
			}
		} else if !vc.isAmbientExpr(el) {
			return "", fmt.Errorf("unsupported field in literal of %s", t)
		}
	}
	return val, nil
}

func (vc *vCtx) selector(x *ast.SelectorExpr) (string, error) {
	sel := vc.p.TypesInfo.Selections[x]
	if sel == nil || sel.Kind() != types.FieldVal {
		return "", fmt.Errorf("unsupported selector %s", x.Sel.Name)
	}
	xt := vc.p.TypesInfo.TypeOf(x.X)
	if vc.isAmbientType(xt) {
		lt, ok := vc.amb.fields[x.Sel.Name]
		if !ok {
			return "", fmt.Errorf("field %s of the ambient object has no representation", x.Sel.Name)
		}
		_ = lt
		vc.usesGF = true
		return "gf." + leanIdent(x.Sel.Name), nil
	}
	if st, at, ok := vc.valueField(xt); ok && at >= 0 && st.Field(at).Name() == x.Sel.Name {
		lt, err := vc.vt(st.Field(at).Type())
		if err != nil {
			return "", err
		}
		return vc.ex(x.X, lt)
	}
	return "", fmt.Errorf("unsupported field access .%s", x.Sel.Name)
}

func (vc *vCtx) binary(x *ast.BinaryExpr) (string, error) {
	xt, yt := vc.p.TypesInfo.TypeOf(x.X), vc.p.TypesInfo.TypeOf(x.Y)
	if x.Op == token.EQL || x.Op == token.NEQ {
		// ambient pointers: one object
		if vc.isAmbientType(xt) && vc.isAmbientType(yt) {
			vc.usesGF = true
			if x.Op == token.EQL {
				return "true", nil
			}
			return "false", nil
		}
		// error values against nil
		var other ast.Expr
		if isNilIdent(x.Y) {
			other = x.X
		} else if isNilIdent(x.X) {
			other = x.Y
		}
		if other != nil {
			lt, err := vc.vt(vc.p.TypesInfo.TypeOf(other))
			if err != nil || lt != "Bool" {
				return "", fmt.Errorf("comparison with nil of a non-error value")
			}
			a, err := vc.ex(other, "Bool")
			if err != nil {
				return "", err
			}
			if x.Op == token.NEQ {
				return a, nil
			}
			return "(!" + a + ")", nil
		}
	}
	lt, err := vc.vt(xt)
	if err != nil {
		return "", err
	}
	if lt != "Int" && lt != "Bool" {
		return "", fmt.Errorf("operator %s on %s", x.Op, lt)
	}
	if unsignedBits(vc.p.TypesInfo.TypeOf(x)) > 0 || unsignedBits(xt) > 0 {
		return "", fmt.Errorf("unsigned arithmetic")
	}
	a, err := vc.ex(x.X, lt)
	if err != nil {
		return "", err
	}
	if x.Op == token.LAND || x.Op == token.LOR {
		// the right operand is evaluated only when needed: its checked operations must not run otherwise
		saved := vc.pre
		vc.pre = nil
		b, err := vc.ex(x.Y, "Bool")
		if err != nil {
			return "", err
		}
		inner := vc.pre
		vc.pre = saved
		if len(inner) == 0 {
			return binop(x.Op.String(), a, b)
		}
		var sb strings.Builder
		for _, bd := range inner {
			fmt.Fprintf(&sb, "Gzx.GoM.tryR (%s) fun %s => ", bd.expr, bd.name)
		}
		sb.WriteString(".ok " + b)
		if x.Op == token.LAND {
			return vc.bind(fmt.Sprintf("if %s then (%s) else .ok false", a, sb.String())), nil
		}
		return vc.bind(fmt.Sprintf("if %s then .ok true else (%s)", a, sb.String())), nil
	}
	b, err := vc.ex(x.Y, lt)
	if err != nil {
		return "", err
	}
	switch x.Op {
	case token.QUO, token.REM:
		ytv := vc.p.TypesInfo.Types[x.Y]
		if ytv.Value != nil && ytv.Value.Kind() == constant.Int && constant.Sign(ytv.Value) != 0 {
			return binop(x.Op.String(), a, b)
		}
		if x.Op == token.QUO {
			return vc.bind(fmt.Sprintf("Gzx.GoM.div %s %s", a, b)), nil
		}
		return vc.bind(fmt.Sprintf("Gzx.GoM.mod %s %s", a, b)), nil
	case token.SHL, token.SHR:
		ytv := vc.p.TypesInfo.Types[x.Y]
		if (ytv.Value != nil && constant.Sign(ytv.Value) >= 0) || unsignedBits(yt) > 0 {
			return binop(x.Op.String(), a, b)
		}
		if x.Op == token.SHL {
			return vc.bind(fmt.Sprintf("Gzx.GoM.shl %s %s", a, b)), nil
		}
		return vc.bind(fmt.Sprintf("Gzx.GoM.shr %s %s", a, b)), nil
	}
	return binop(x.Op.String(), a, b)
}

// errorCallIsNonNil: a call that yields an error value known to be non-nil (`errors.New`, `errors.Errorf`, an in-repo
// function every `return` of which yields a struct literal).  Its arguments are not evaluated.
func (vc *vCtx) errorCallIsNonNil(x *ast.CallExpr) bool {
	var fn *types.Func
	switch f := x.Fun.(type) {
	case *ast.Ident:
		fn, _ = vc.p.TypesInfo.Uses[f].(*types.Func)
	case *ast.SelectorExpr:
		fn, _ = vc.p.TypesInfo.Uses[f.Sel].(*types.Func)
	}
	if fn == nil || fn.Pkg() == nil {
		return false
	}
	path := fn.Pkg().Path()
	if !strings.HasPrefix(path, modPath) {
		switch path + "." + fn.Name() {
		case "errors.New", "fmt.Errorf", "golang.org/x/xerrors.New", "golang.org/x/xerrors.Errorf":
			return true
		}
		return false
	}
	p := pkgs[path]
	if p == nil {
		return false
	}
	fd := findFunc(p, fn.Name())
	if fd == nil || fd.Body == nil {
		return false
	}
	ok, any := true, false
	ast.Inspect(fd.Body, func(n ast.Node) bool {
		switch r := n.(type) {
		case *ast.FuncLit:
			return false
		case *ast.ReturnStmt:
			any = true
			if len(r.Results) != 1 {
				ok = false
				return false
			}
			if _, isLit := r.Results[0].(*ast.CompositeLit); !isLit {
				ok = false
			}
		}
		return ok
	})
	return ok && any
}

// trivialGetterField: the callee is `func (r T) M() X { return r.f }`
func (vc *vCtx) trivialGetterField(fn *types.Func) (string, bool) {
	if fn.Pkg() == nil {
		return "", false
	}
	p := pkgs[fn.Pkg().Path()]
	if p == nil {
		return "", false
	}
	for _, f := range p.Syntax {
		for _, d := range f.Decls {
			fd, ok := d.(*ast.FuncDecl)
			if !ok || fd.Recv == nil || p.TypesInfo.Defs[fd.Name] != fn || fd.Body == nil {
				continue
			}
			if len(fd.Recv.List) != 1 || len(fd.Recv.List[0].Names) != 1 || len(fd.Type.Params.List) != 0 || len(fd.Body.List) != 1 {
				return "", false
			}
			rs, ok := fd.Body.List[0].(*ast.ReturnStmt)
			if !ok || len(rs.Results) != 1 {
				return "", false
			}
			se, ok := rs.Results[0].(*ast.SelectorExpr)
			if !ok {
				return "", false
			}
			if id, ok := se.X.(*ast.Ident); ok && id.Name == fd.Recv.List[0].Names[0].Name {
				return se.Sel.Name, true
			}
			return "", false
		}
	}
	return "", false
}

// call translates a call; the results are Lean expressions (Go results only; written parameters are rebound here).
func (vc *vCtx) call(x *ast.CallExpr) ([]string, error) {
	// conversions
	if tv, ok := vc.p.TypesInfo.Types[x.Fun]; ok && tv.IsType() && len(x.Args) == 1 {
		lt, err := leanType(tv.Type)
		if err != nil || lt != "Int" || unsignedBits(tv.Type) > 0 {
			return nil, fmt.Errorf("unsupported conversion to %s", tv.Type)
		}
		if tb, ok := tv.Type.Underlying().(*types.Basic); !ok || (tb.Kind() != types.Int && tb.Kind() != types.Int64) {
			return nil, fmt.Errorf("narrowing conversion to %s", tv.Type)
		}
		if st, err := leanType(vc.p.TypesInfo.TypeOf(x.Args[0])); err != nil || st != "Int" {
			return nil, fmt.Errorf("conversion of a non-integer")
		}
		s, err := vc.ex(x.Args[0], "Int")
		return []string{s}, err
	}
	if id, ok := x.Fun.(*ast.Ident); ok {
		if _, isBuiltin := vc.p.TypesInfo.Uses[id].(*types.Builtin); isBuiltin {
			switch id.Name {
			case "len":
				lt, err := vc.vt(vc.p.TypesInfo.TypeOf(x.Args[0]))
				if err != nil {
					return nil, err
				}
				l, err := vc.ex(x.Args[0], lt)
				if err != nil {
					return nil, err
				}
				switch lt {
				case "List Int":
					return []string{"(Gzx.GoM.len " + l + ")"}, nil
				case "List (List Int)":
					return []string{"(Gzx.GoM.lenL " + l + ")"}, nil
				}
				return nil, fmt.Errorf("len of %s", lt)
			case "make":
				lt, err := vc.vt(vc.p.TypesInfo.TypeOf(x))
				if err != nil || lt != "List Int" || len(x.Args) != 2 {
					return nil, fmt.Errorf("unsupported make")
				}
				n, err := vc.ex(x.Args[1], "Int")
				if err != nil {
					return nil, err
				}
				return []string{vc.bind("Gzx.GoM.mk " + n)}, nil
			case "append":
				lt, err := vc.vt(vc.p.TypesInfo.TypeOf(x))
				if err != nil || len(x.Args) != 2 || x.Ellipsis.IsValid() {
					return nil, fmt.Errorf("unsupported append")
				}
				et := "Int"
				if lt == "List (List Int)" {
					et = "List Int"
				}
				a, err := vc.ex(x.Args[0], lt)
				if err != nil {
					return nil, err
				}
				b, err := vc.ex(x.Args[1], et)
				if err != nil {
					return nil, err
				}
				return []string{"(" + a + " ++ [" + b + "])"}, nil
			}
			return nil, fmt.Errorf("builtin %s", id.Name)
		}
	}
	if lt, err := vc.vt(vc.p.TypesInfo.TypeOf(x)); err == nil && lt == "Bool" {
		if _, isIface := vc.p.TypesInfo.TypeOf(x).Underlying().(*types.Interface); isIface && vc.errorCallIsNonNil(x) {
			return []string{"true"}, nil
		}
	}
	var fn *types.Func
	var recv ast.Expr
	switch f := x.Fun.(type) {
	case *ast.Ident:
		fn, _ = vc.p.TypesInfo.Uses[f].(*types.Func)
	case *ast.SelectorExpr:
		fn, _ = vc.p.TypesInfo.Uses[f.Sel].(*types.Func)
		if sel := vc.p.TypesInfo.Selections[f]; sel != nil && sel.Kind() == types.MethodVal {
			recv = f.X
		}
	}
	if fn == nil {
		return nil, fmt.Errorf("call of a non-function")
	}
	ci := vCallees[vc.module+"|"+fn.FullName()]
	if ci == nil {
		ci = vc.autoCallee(fn)
	}
	if ci == nil {
		if recv != nil && len(x.Args) == 0 {
			if field, ok := vc.trivialGetterField(fn); ok {
				s, err := vc.selectorOf(recv, field)
				return []string{s}, err
			}
		}
		return nil, fmt.Errorf("call of %s (not translated earlier into this module)", fn.Name())
	}
	var actual []ast.Expr
	if recv != nil {
		actual = append(actual, recv)
	}
	actual = append(actual, x.Args...)
	if len(actual) != len(ci.params) {
		return nil, fmt.Errorf("call of %s: arity", fn.Name())
	}
	var args []string
	if ci.fuel {
		vc.usesFuel = true
		args = append(args, "fuel")
	}
	if ci.gf {
		vc.usesGF = true
		args = append(args, "gf")
	}
	for i, a := range actual {
		if ci.params[i] == vNone {
			continue
		}
		s, err := vc.ex(a, ci.params[i])
		if err != nil {
			return nil, err
		}
		args = append(args, s)
	}
	t := vc.bind(ci.lean + " " + strings.Join(args, " "))
	n := len(ci.results) + len(ci.outs)
	var rs []string
	for k := range ci.results {
		rs = append(rs, projOf(t, k, n))
	}
	// written parameters: rebind the argument variables (after the bind, in order)
	for k, pi := range ci.outs {
		v, err := vc.lvalueVar(actual[pi])
		if err != nil {
			return nil, fmt.Errorf("call of %s writes its argument %d: %v", fn.Name(), pi, err)
		}
		vc.pre = append(vc.pre, mbind{v, ".ok " + projOf(t, len(ci.results)+k, n)})
	}
	return rs, nil
}

// autoCallee: a function of the repository that a kernel calls but that tables.d does not list (and that is not a trivial
// getter) is translated on the fly as an auxiliary definition `aux_<name>` emitted in front of the caller, so that a helper
// introduced by a refactoring stays inside the regenerated text instead of making its callers untranslatable.
var (
	vAuxPending []string
	vAuxBusy    = map[string]bool{}
)

func (vc *vCtx) autoCallee(fn *types.Func) *vFunc {
	if fn.Pkg() == nil || !strings.HasPrefix(fn.Pkg().Path(), modPath) {
		return nil
	}
	if _, ok := vc.trivialGetterField(fn); ok {
		return nil
	}
	p2 := pkgs[fn.Pkg().Path()]
	key := vc.module + "|" + fn.FullName()
	if p2 == nil || vAuxBusy[key] {
		return nil
	}
	name := fn.Name()
	lean := "aux_" + name
	if sig, ok := fn.Type().(*types.Signature); ok && sig.Recv() != nil {
		t := sig.Recv().Type()
		if pt, ok := t.(*types.Pointer); ok {
			t = pt.Elem()
		}
		if n, ok := t.(*types.Named); ok {
			name = n.Obj().Name() + "." + name
			lean = "aux_" + n.Obj().Name() + "_" + fn.Name()
		}
	}
	vAuxBusy[key] = true
	defer delete(vAuxBusy, key)
	text, err := genFuncV(p2, entry{"funcv", vc.module, lean, relPkg(fn.Pkg().Path()), name})
	if err != nil {
		return nil
	}
	vAuxPending = append(vAuxPending, "-- auxiliary: not listed in tables.d, called by a kernel\n"+text+"\n")
	return vCallees[key]
}

func (vc *vCtx) selectorOf(recv ast.Expr, field string) (string, error) {
	xt := vc.p.TypesInfo.TypeOf(recv)
	if vc.isAmbientType(xt) {
		if _, ok := vc.amb.fields[field]; !ok {
			return "", fmt.Errorf("field %s of the ambient object has no representation", field)
		}
		vc.usesGF = true
		return "gf." + leanIdent(field), nil
	}
	if st, at, ok := vc.valueField(xt); ok && at >= 0 && st.Field(at).Name() == field {
		lt, err := vc.vt(st.Field(at).Type())
		if err != nil {
			return "", err
		}
		return vc.ex(recv, lt)
	}
	return "", fmt.Errorf("getter of field %s", field)
}

// lvalueVar: the writable Lean variable an expression denotes (`x`, `x.f` with f the value field of x)
func (vc *vCtx) lvalueVar(e ast.Expr) (string, error) {
	switch x := e.(type) {
	case *ast.ParenExpr:
		return vc.lvalueVar(x.X)
	case *ast.Ident:
		if n, ok := vc.varOf(x); ok && vc.vtype[n] != vNone {
			if !vc.writable[n] {
				return "", fmt.Errorf("write through %s, which may be an alias", x.Name)
			}
			return n, nil
		}
	case *ast.SelectorExpr:
		if st, at, ok := vc.valueField(vc.p.TypesInfo.TypeOf(x.X)); ok && at >= 0 && st.Field(at).Name() == x.Sel.Name {
			return vc.lvalueVar(x.X)
		}
	}
	return "", fmt.Errorf("unsupported assignment target")
}

// ---------- statements ----------

func vTerminates(stmts []ast.Stmt) bool {
	if len(stmts) == 0 {
		return false
	}
	switch x := stmts[len(stmts)-1].(type) {
	case *ast.ReturnStmt:
		return true
	case *ast.BlockStmt:
		return vTerminates(x.List)
	case *ast.IfStmt:
		if x.Else == nil {
			return false
		}
		var el []ast.Stmt
		switch e := x.Else.(type) {
		case *ast.BlockStmt:
			el = e.List
		default:
			el = []ast.Stmt{e}
		}
		return vTerminates(x.Body.List) && vTerminates(el)
	}
	return false
}

// assignedOuter: Lean variables declared BEFORE the statements (currently known) that the statements assign
func (vc *vCtx) assignedOuter(nodes []ast.Node) ([]string, error) {
	set := map[string]bool{}
	var err error
	mark := func(e ast.Expr) {
		for {
			switch x := e.(type) {
			case *ast.ParenExpr:
				e = x.X
				continue
			case *ast.IndexExpr:
				e = x.X
				continue
			case *ast.SliceExpr:
				e = x.X
				continue
			case *ast.SelectorExpr:
				if vc.isAmbientType(vc.p.TypesInfo.TypeOf(x.X)) {
					err = fmt.Errorf("write to the ambient object")
					return
				}
				e = x.X
				continue
			case *ast.Ident:
				if x.Name == "_" {
					return
				}
				if obj := vc.p.TypesInfo.Uses[x]; obj != nil {
					if n, ok := vc.objName[obj]; ok {
						set[n] = true
					}
				}
				return
			}
			return
		}
	}
	for _, nd := range nodes {
		if nd == nil {
			continue
		}
		ast.Inspect(nd, func(n ast.Node) bool {
			switch x := n.(type) {
			case *ast.AssignStmt:
				for _, l := range x.Lhs {
					mark(l)
				}
			case *ast.IncDecStmt:
				mark(x.X)
			case *ast.CallExpr:
				if id, ok := x.Fun.(*ast.Ident); ok && id.Name == "copy" && len(x.Args) == 2 {
					mark(x.Args[0])
				}
				// written parameters of translated callees
				var fn *types.Func
				var actual []ast.Expr
				switch f := x.Fun.(type) {
				case *ast.Ident:
					fn, _ = vc.p.TypesInfo.Uses[f].(*types.Func)
				case *ast.SelectorExpr:
					fn, _ = vc.p.TypesInfo.Uses[f.Sel].(*types.Func)
					if sel := vc.p.TypesInfo.Selections[f]; sel != nil && sel.Kind() == types.MethodVal {
						actual = append(actual, f.X)
					}
				}
				if fn != nil {
					if ci := vCallees[vc.module+"|"+fn.FullName()]; ci != nil {
						actual = append(actual, x.Args...)
						for _, pi := range ci.outs {
							if pi < len(actual) {
								mark(actual[pi])
							}
						}
					}
				}
			}
			return true
		})
	}
	// canonical order of a state tuple: by type (slices of slices, slices, integers, booleans), then by declaration, so that
	// swapping the declarations of two locals of different types does not change the shape of the translation
	var out []string
	for _, lt := range []string{"List (List Int)", "List Int", "Int", "Bool"} {
		for _, n := range vc.order {
			if set[n] && vc.vtype[n] == lt {
				out = append(out, n)
			}
		}
	}
	return out, err
}

func (vc *vCtx) retTuple(rs []string) string {
	all := append(append([]string{}, rs...), vc.outs...)
	return vTuple(all)
}

func (vc *vCtx) emitReturn(rs []string, lvl int) string {
	kw := ".ok"
	if vc.cmode {
		kw = ".ret"
	}
	return fmt.Sprintf("%s%s%s %s\n", vc.flush(lvl), ind(lvl), kw, vc.retTuple(rs))
}

// scope: run f with the variable tables restored afterwards (names declared inside go out of scope)
func (vc *vCtx) scoped(f func() (string, error)) (string, error) {
	saveObj := map[types.Object]string{}
	for k, v := range vc.objName {
		saveObj[k] = v
	}
	saveOrder := append([]string{}, vc.order...)
	saveCnt := map[string]int{}
	for k, v := range vc.nameCnt {
		saveCnt[k] = v
	}
	saveW := map[string]bool{}
	for k, v := range vc.writable {
		saveW[k] = v
	}
	s, err := f()
	vc.objName, vc.order, vc.nameCnt = saveObj, saveOrder, saveCnt
	for k := range vc.writable {
		if _, ok := saveW[k]; !ok {
			delete(vc.writable, k)
		}
	}
	return s, err
}

// inCtl: translate stmts as a control value over the state variables vs
func (vc *vCtx) inCtl(vs []string, stmts []ast.Stmt, lvl int) (string, error) {
	savedMode, savedState, savedPre := vc.cmode, vc.state, vc.pre
	before := map[string]bool{}
	for k, v := range vc.writable {
		before[k] = v
	}
	vc.cmode, vc.state, vc.pre = true, vs, nil
	s, err := vc.scoped(func() (string, error) { return vc.block(stmts, lvl) })
	vc.cmode, vc.state, vc.pre = savedMode, savedState, savedPre
	for k, v := range before {
		vc.writable[k] = v && vc.writable[k] // a branch that re-points a slice makes later writes through it suspect
	}
	return s, err
}

func (vc *vCtx) then() string {
	if vc.cmode {
		return "thenC"
	}
	return "thenR"
}

// thenSig: the explicit type arguments of the join (`thenC` calls the inner state σ')
func (vc *vCtx) thenSig(vs []string) string {
	if vc.cmode {
		return fmt.Sprintf("(σ' := %s) (ρ := %s)", vc.sigma(vs), vc.rho())
	}
	return fmt.Sprintf("(σ := %s) (ρ := %s)", vc.sigma(vs), vc.rho())
}

func (vc *vCtx) block(stmts []ast.Stmt, lvl int) (string, error) {
	if len(stmts) == 0 {
		if vc.cmode {
			return fmt.Sprintf("%s%s.next %s\n", vc.flush(lvl), ind(lvl), vTuple(vc.state)), nil
		}
		if vc.void {
			return vc.emitReturn(nil, lvl), nil
		}
		return "", fmt.Errorf("path without return")
	}
	nodes++
	s, rest := stmts[0], stmts[1:]
	switch x := s.(type) {
	case *ast.EmptyStmt:
		return vc.block(rest, lvl)
	case *ast.BlockStmt:
		inner, err := vc.scoped(func() (string, error) {
			// names declared in the block are not visible after it; the rest is translated inside (same Lean scope)
			return vc.block(append(append([]ast.Stmt{}, x.List...), rest...), lvl)
		})
		return inner, err
	case *ast.ReturnStmt:
		if len(x.Results) == 0 {
			if vc.void {
				return vc.emitReturn(nil, lvl), nil
			}
			return "", fmt.Errorf("bare return")
		}
		if len(x.Results) == 1 && len(vc.resTypes) > 1 {
			call, ok := x.Results[0].(*ast.CallExpr)
			if !ok {
				return "", fmt.Errorf("return arity")
			}
			rs, err := vc.call(call)
			if err != nil {
				return "", err
			}
			if len(rs) != len(vc.resTypes) {
				return "", fmt.Errorf("return arity")
			}
			return vc.emitReturn(rs, lvl), nil
		}
		if len(x.Results) != len(vc.resTypes) {
			return "", fmt.Errorf("return arity")
		}
		var rs []string
		for i, r := range x.Results {
			e, err := vc.ex(r, vc.resTypes[i])
			if err != nil {
				return "", err
			}
			rs = append(rs, e)
		}
		return vc.emitReturn(rs, lvl), nil
	case *ast.DeclStmt:
		gd, ok := x.Decl.(*ast.GenDecl)
		if !ok || gd.Tok != token.VAR {
			return "", fmt.Errorf("unsupported declaration")
		}
		var sb strings.Builder
		for _, sp := range gd.Specs {
			vs := sp.(*ast.ValueSpec)
			for i, n := range vs.Names {
				obj := vc.p.TypesInfo.Defs[n]
				lt, err := vc.vt(obj.Type())
				if err != nil || lt == vNone {
					return "", fmt.Errorf("var %s: unsupported type", n.Name)
				}
				val := vZero(lt)
				if i < len(vs.Values) {
					if val, err = vc.ex(vs.Values[i], lt); err != nil {
						return "", err
					}
				} else if len(vs.Values) > 0 {
					return "", fmt.Errorf("var with a multi-valued initialiser")
				}
				sb.WriteString(vc.flush(lvl))
				ln := vc.declare(obj, lt)
				sb.WriteString(vc.letLine(lvl, ln, val))
			}
		}
		r, err := vc.block(rest, lvl)
		return sb.String() + r, err
	case *ast.IncDecStmt:
		op := token.ADD_ASSIGN
		if x.Tok == token.DEC {
			op = token.SUB_ASSIGN
		}
		return vc.block(append([]ast.Stmt{&ast.AssignStmt{Lhs: []ast.Expr{x.X}, Tok: op, Rhs: []ast.Expr{&ast.BasicLit{Kind: token.INT, Value: "1"}}}}, rest...), lvl)
	case *ast.AssignStmt:
		s, err := vc.assign(x, lvl)
		if err != nil {
			return "", err
		}
		r, err := vc.block(rest, lvl)
		return s + r, err
	case *ast.ExprStmt:
		call, ok := x.X.(*ast.CallExpr)
		if !ok {
			return "", fmt.Errorf("expression statement")
		}
		if id, ok := call.Fun.(*ast.Ident); ok && id.Name == "copy" && len(call.Args) == 2 {
			if _, isB := vc.p.TypesInfo.Uses[id].(*types.Builtin); isB {
				s, err := vc.copyStmt(call, lvl)
				if err != nil {
					return "", err
				}
				r, err := vc.block(rest, lvl)
				return s + r, err
			}
		}
		if _, err := vc.call(call); err != nil {
			return "", err
		}
		s := vc.flush(lvl)
		r, err := vc.block(rest, lvl)
		return s + r, err
	case *ast.IfStmt:
		return vc.ifStmt(x, rest, lvl)
	case *ast.ForStmt:
		return vc.forStmt(x, rest, lvl)
	case *ast.RangeStmt:
		return vc.rangeStmt(x, rest, lvl)
	}
	return "", fmt.Errorf("unsupported statement %T", s)
}

func (vc *vCtx) copyStmt(call *ast.CallExpr, lvl int) (string, error) {
	needTie(vc.module)
	src, err := vc.ex(call.Args[1], "List Int")
	if err != nil {
		return "", err
	}
	if se, ok := call.Args[0].(*ast.SliceExpr); ok && !se.Slice3 {
		dst, err := vc.lvalueVar(se.X)
		if err != nil {
			return "", err
		}
		if vc.vtype[dst] != "List Int" {
			return "", fmt.Errorf("copy into %s", vc.vtype[dst])
		}
		lo, hi := "0", "(Gzx.GoM.len "+dst+")"
		if se.Low != nil {
			if lo, err = vc.ex(se.Low, "Int"); err != nil {
				return "", err
			}
		}
		if se.High != nil {
			if hi, err = vc.ex(se.High, "Int"); err != nil {
				return "", err
			}
		}
		vc.pre = append(vc.pre, mbind{dst, fmt.Sprintf("Gzx.GoM.copySeg %s %s %s %s", dst, lo, hi, src)})
		return vc.flush(lvl), nil
	}
	dst, err := vc.lvalueVar(call.Args[0])
	if err != nil {
		return "", err
	}
	if vc.vtype[dst] != "List Int" {
		return "", fmt.Errorf("copy into %s", vc.vtype[dst])
	}
	return vc.flush(lvl) + vc.letLine(lvl, dst, fmt.Sprintf("Gzx.GoM.copyL %s %s", dst, src)), nil
}

// fresh: does the expression create a new slice / struct (so that writes through the variable are local)?
func vFresh(e ast.Expr) bool {
	switch x := e.(type) {
	case *ast.ParenExpr:
		return vFresh(x.X)
	case *ast.CompositeLit:
		return true
	case *ast.UnaryExpr:
		_, ok := x.X.(*ast.CompositeLit)
		return x.Op == token.AND && ok
	case *ast.CallExpr:
		id, ok := x.Fun.(*ast.Ident)
		return ok && id.Name == "make"
	}
	return false
}

func (vc *vCtx) assign(x *ast.AssignStmt, lvl int) (string, error) {
	var sb strings.Builder
	// right-hand sides first
	var vals []string
	if len(x.Rhs) == 1 && len(x.Lhs) > 1 {
		call, ok := x.Rhs[0].(*ast.CallExpr)
		if !ok {
			return "", fmt.Errorf("multi-valued right-hand side")
		}
		rs, err := vc.call(call)
		if err != nil {
			return "", err
		}
		if len(rs) != len(x.Lhs) {
			return "", fmt.Errorf("assignment arity")
		}
		vals = rs
	} else {
		if len(x.Rhs) != len(x.Lhs) {
			return "", fmt.Errorf("assignment arity")
		}
		for i, r := range x.Rhs {
			lt, err := vc.vt(vc.p.TypesInfo.TypeOf(x.Lhs[i]))
			if id, ok := x.Lhs[i].(*ast.Ident); ok && (err != nil || id.Name == "_") {
				if obj := vc.p.TypesInfo.Defs[id]; obj != nil {
					lt, err = vc.vt(obj.Type())
				} else if id.Name == "_" {
					lt, err = vc.vt(vc.p.TypesInfo.TypeOf(r))
				}
			}
			if err != nil {
				return "", err
			}
			if lt == vNone {
				return "", fmt.Errorf("assignment of a value without representation")
			}
			if x.Tok != token.ASSIGN && x.Tok != token.DEFINE {
				// op=
				cur, err := vc.ex(x.Lhs[i], lt)
				if err != nil {
					return "", err
				}
				op := strings.TrimSuffix(x.Tok.String(), "=")
				b, err := vc.ex(r, lt)
				if err != nil {
					return "", err
				}
				var v string
				switch op {
				case "/":
					v = vc.bind(fmt.Sprintf("Gzx.GoM.div %s %s", cur, b))
				case "%":
					v = vc.bind(fmt.Sprintf("Gzx.GoM.mod %s %s", cur, b))
				case "<<", ">>":
					return "", fmt.Errorf("shift assignment")
				default:
					if v, err = binop(op, cur, b); err != nil {
						return "", err
					}
				}
				vals = append(vals, v)
				continue
			}
			v, err := vc.ex(r, lt)
			if err != nil {
				return "", err
			}
			vals = append(vals, v)
		}
		if len(vals) > 1 {
			// parallel assignment: all right-hand sides are evaluated before any write
			sb.WriteString(vc.flush(lvl))
			for i, v := range vals {
				vc.tmp++
				t := fmt.Sprintf("tmp%d", vc.tmp)
				fmt.Fprintf(&sb, "%slet %s := %s\n", ind(lvl), t, v)
				vals[i] = t
			}
		}
	}
	// writes, left to right
	for i, l := range x.Lhs {
		v := vals[i]
		switch lx := l.(type) {
		case *ast.Ident:
			if lx.Name == "_" {
				continue
			}
			if obj := vc.p.TypesInfo.Defs[lx]; obj != nil {
				lt, err := vc.vt(obj.Type())
				if err != nil || lt == vNone {
					return "", fmt.Errorf("local %s: unsupported type", lx.Name)
				}
				sb.WriteString(vc.flush(lvl))
				ln := vc.declare(obj, lt)
				if len(x.Rhs) == len(x.Lhs) && vFresh(x.Rhs[i]) {
					vc.writable[ln] = true
				}
				sb.WriteString(vc.letLine(lvl, ln, v))
				continue
			}
			n, ok := vc.varOf(lx)
			if !ok || vc.vtype[n] == vNone {
				return "", fmt.Errorf("assignment to %s", lx.Name)
			}
			sb.WriteString(vc.flush(lvl))
			if len(x.Rhs) == len(x.Lhs) && x.Tok == token.ASSIGN {
				if lt := vc.vtype[n]; lt != "Int" && lt != "Bool" {
					vc.writable[n] = vFresh(x.Rhs[i]) && !vc.isParam(n)
				}
			}
			sb.WriteString(vc.letLine(lvl, n, v))
		case *ast.IndexExpr:
			base, err := vc.lvalueVar(lx.X)
			if err != nil {
				return "", err
			}
			if vc.vtype[base] != "List Int" {
				return "", fmt.Errorf("element write into %s", vc.vtype[base])
			}
			idx, err := vc.ex(lx.Index, "Int")
			if err != nil {
				return "", err
			}
			vc.pre = append(vc.pre, mbind{base, fmt.Sprintf("Gzx.GoM.setIdx %s %s %s", base, idx, v)})
			sb.WriteString(vc.flush(lvl))
		case *ast.SelectorExpr:
			if vc.isAmbientType(vc.p.TypesInfo.TypeOf(lx.X)) {
				return "", fmt.Errorf("write to the ambient object")
			}
			base, err := vc.lvalueVar(lx)
			if err != nil {
				return "", err
			}
			sb.WriteString(vc.flush(lvl))
			sb.WriteString(vc.letLine(lvl, base, v))
		default:
			return "", fmt.Errorf("unsupported assignment target %T", l)
		}
	}
	sb.WriteString(vc.flush(lvl))
	return sb.String(), nil
}

func (vc *vCtx) isParam(n string) bool {
	for _, p := range vc.params {
		if p == n {
			return true
		}
	}
	return false
}

func (vc *vCtx) ifStmt(x *ast.IfStmt, rest []ast.Stmt, lvl int) (string, error) {
	if x.Init != nil {
		// `if init; cond {…}`: the names declared by init are scoped to the if; translate as a block
		inner := &ast.IfStmt{Cond: x.Cond, Body: x.Body, Else: x.Else, If: x.If}
		return vc.block(append([]ast.Stmt{&ast.BlockStmt{List: []ast.Stmt{x.Init, inner}}}, rest...), lvl)
	}
	var els []ast.Stmt
	if x.Else != nil {
		switch e := x.Else.(type) {
		case *ast.BlockStmt:
			els = e.List
		default:
			els = []ast.Stmt{e}
		}
	}
	c, err := vc.ex(x.Cond, "Bool")
	if err != nil {
		return "", err
	}
	head := vc.flush(lvl)
	if vTerminates(x.Body.List) && x.Else == nil {
		a, err := vc.scoped(func() (string, error) { return vc.block(x.Body.List, lvl+1) })
		if err != nil {
			return "", err
		}
		b, err := vc.block(rest, lvl+1)
		if err != nil {
			return "", err
		}
		return fmt.Sprintf("%s%sif %s then\n%s%selse\n%s", head, ind(lvl), c, a, ind(lvl), b), nil
	}
	if vTerminates(x.Body.List) && vTerminates(els) {
		a, err := vc.scoped(func() (string, error) { return vc.block(x.Body.List, lvl+1) })
		if err != nil {
			return "", err
		}
		b, err := vc.scoped(func() (string, error) { return vc.block(els, lvl+1) })
		if err != nil {
			return "", err
		}
		return fmt.Sprintf("%s%sif %s then\n%s%selse\n%s", head, ind(lvl), c, a, ind(lvl), b), nil
	}
	// joined: one control value over the outer variables the branches assign
	vs, err := vc.assignedOuter([]ast.Node{x.Body, x.Else})
	if err != nil {
		return "", err
	}
	a, err := vc.inCtl(vs, x.Body.List, lvl+2)
	if err != nil {
		return "", err
	}
	b, err := vc.inCtl(vs, els, lvl+2)
	if err != nil {
		return "", err
	}
	var sb strings.Builder
	sb.WriteString(head)
	fmt.Fprintf(&sb, "%s(Gzx.GoM.Ctl.%s %s\n%s(if %s then\n%s%selse\n%s%s)) fun %s =>\n", ind(lvl), vc.then(), vc.thenSig(vs),
		ind(lvl+1), c, a, ind(lvl+1), b, ind(lvl+1), stVar(vs))
	sb.WriteString(vc.unpack(vs, lvl))
	vc.afterJoin(vs)
	r, err := vc.block(rest, lvl)
	if err != nil {
		return "", err
	}
	return sb.String() + r, nil
}

// afterJoin: what is known about aliasing of the joined variables is forgotten (parameters stay writable)
func (vc *vCtx) afterJoin(vs []string) {
	for _, v := range vs {
		if lt := vc.vtype[v]; lt != "Int" && lt != "Bool" && !vc.isParam(v) {
			// a local slice stays writable only if it was writable before (branches that re-point it clear the flag)
			_ = lt
		}
	}
}

// pure: translate an expression that must not contain checked operations
func (vc *vCtx) pureEx(e ast.Expr, want string) (string, bool) {
	saved := vc.pre
	vc.pre = nil
	tmp := vc.tmp
	s, err := vc.ex(e, want)
	ok := err == nil && len(vc.pre) == 0
	vc.pre = saved
	if !ok {
		vc.tmp = tmp
	}
	return s, ok
}

func (vc *vCtx) mentions(e ast.Node, vs []string) bool {
	set := map[string]bool{}
	for _, v := range vs {
		set[v] = true
	}
	found := false
	ast.Inspect(e, func(n ast.Node) bool {
		if id, ok := n.(*ast.Ident); ok {
			if v, ok := vc.varOf(id); ok && set[v] {
				found = true
			}
		}
		return !found
	})
	return found
}

func hasBranch(body *ast.BlockStmt) bool {
	found := false
	ast.Inspect(body, func(n ast.Node) bool {
		switch n.(type) {
		case *ast.BranchStmt, *ast.FuncLit, *ast.SwitchStmt, *ast.DeferStmt, *ast.GoStmt, *ast.SelectStmt, *ast.TypeSwitchStmt, *ast.LabeledStmt:
			found = true
		}
		return !found
	})
	return found
}

func (vc *vCtx) forStmt(x *ast.ForStmt, rest []ast.Stmt, lvl int) (string, error) {
	if hasBranch(x.Body) {
		return "", fmt.Errorf("break / continue / switch in a loop body")
	}
	return vc.scoped(func() (string, error) {
		if s, ok, err := vc.forCounted(x, rest, lvl); ok || err != nil {
			return s, err
		}
		return vc.forWhile(x, rest, lvl)
	})
}

// forCounted: `for i := a; i < b; i++` / `i <= b` with b loop-invariant and free of checked operations
func (vc *vCtx) forCounted(x *ast.ForStmt, rest []ast.Stmt, lvl int) (string, bool, error) {
	init, ok := x.Init.(*ast.AssignStmt)
	if !ok || init.Tok != token.DEFINE || len(init.Lhs) != 1 || len(init.Rhs) != 1 {
		return "", false, nil
	}
	iv, ok := init.Lhs[0].(*ast.Ident)
	if !ok {
		return "", false, nil
	}
	post, ok := x.Post.(*ast.IncDecStmt)
	if !ok || post.Tok != token.INC {
		return "", false, nil
	}
	if pid, ok := post.X.(*ast.Ident); !ok || pid.Name != iv.Name {
		return "", false, nil
	}
	cond, ok := x.Cond.(*ast.BinaryExpr)
	if !ok || (cond.Op != token.LSS && cond.Op != token.LEQ) {
		return "", false, nil
	}
	if cid, ok := cond.X.(*ast.Ident); !ok || cid.Name != iv.Name {
		return "", false, nil
	}
	iobj := vc.p.TypesInfo.Defs[iv]
	if lt, err := leanType(iobj.Type()); err != nil || lt != "Int" || unsignedBits(iobj.Type()) > 0 {
		return "", false, nil
	}
	// the body must not assign the loop variable; the bound must not depend on what the body assigns
	assignsI := false
	ast.Inspect(x.Body, func(n ast.Node) bool {
		switch s := n.(type) {
		case *ast.AssignStmt:
			for _, l := range s.Lhs {
				if id, ok := l.(*ast.Ident); ok && vc.p.TypesInfo.Uses[id] == iobj {
					assignsI = true
				}
			}
		case *ast.IncDecStmt:
			if id, ok := s.X.(*ast.Ident); ok && vc.p.TypesInfo.Uses[id] == iobj {
				assignsI = true
			}
		}
		return true
	})
	if assignsI {
		return "", false, nil
	}
	vs, err := vc.assignedOuter([]ast.Node{x.Body})
	if err != nil {
		return "", true, err
	}
	if vc.mentions(cond.Y, vs) {
		return "", false, nil
	}
	b, ok := vc.pureEx(cond.Y, "Int")
	if !ok {
		return "", false, nil
	}
	a, err := vc.ex(init.Rhs[0], "Int")
	if err != nil {
		return "", true, err
	}
	if cond.Op == token.LEQ {
		b = "(" + b + " + 1)"
	}
	head := vc.flush(lvl)
	iname := vc.declare(iobj, "Int")
	body, err := vc.inCtl(vs, x.Body.List, lvl+2)
	if err != nil {
		return "", true, err
	}
	var sb strings.Builder
	sb.WriteString(head)
	fmt.Fprintf(&sb, "%s(Gzx.GoM.Ctl.%s (Gzx.GoM.loop (σ := %s) (ρ := %s) (fun %s %s =>\n%s%s%s) 1 (Gzx.GoM.tripUp %s %s 1) %s %s)) fun %s =>\n",
		ind(lvl), vc.then(), vc.sigma(vs), vc.rho(), iname, stVar(vs), vc.unpack(vs, lvl+2), body, ind(lvl+1), a, b, a, vTuple(vs), stVar(vs))
	sb.WriteString(vc.unpack(vs, lvl))
	delete(vc.objName, iobj)
	r, err := vc.block(rest, lvl)
	if err != nil {
		return "", true, err
	}
	return sb.String() + r, true, nil
}

// forWhile: any other `for init; cond; post { body }`
func (vc *vCtx) forWhile(x *ast.ForStmt, rest []ast.Stmt, lvl int) (string, error) {
	needTie(vc.module)
	var sb strings.Builder
	var initObjs []types.Object
	if x.Init != nil {
		as, ok := x.Init.(*ast.AssignStmt)
		if !ok {
			return "", fmt.Errorf("unsupported loop initialiser")
		}
		s, err := vc.assign(as, lvl)
		if err != nil {
			return "", err
		}
		sb.WriteString(s)
		for _, l := range as.Lhs {
			if id, ok := l.(*ast.Ident); ok {
				if obj := vc.p.TypesInfo.Defs[id]; obj != nil {
					initObjs = append(initObjs, obj)
				}
			}
		}
	}
	bodyStmts := append([]ast.Stmt{}, x.Body.List...)
	var nodesA []ast.Node
	nodesA = append(nodesA, x.Body)
	if x.Post != nil {
		nodesA = append(nodesA, x.Post)
	}
	vs, err := vc.assignedOuter(nodesA)
	if err != nil {
		return "", err
	}
	// body: test the condition (conjuncts left to right), run the body in its own scope, then the post statement
	savedMode, savedState, savedPre := vc.cmode, vc.state, vc.pre
	vc.cmode, vc.state, vc.pre = true, vs, nil
	bodyText, err := vc.scoped(func() (string, error) {
		c := "true"
		if x.Cond != nil {
			var err error
			if c, err = vc.ex(x.Cond, "Bool"); err != nil {
				return "", err
			}
		}
		head := vc.flush(lvl + 2)
		inner, err := vc.scoped(func() (string, error) {
			// the post statement runs in the scope of the loop header, after the body's own scope has ended
			b, err := vc.blockThen(bodyStmts, x.Post, lvl+3)
			return b, err
		})
		if err != nil {
			return "", err
		}
		return fmt.Sprintf("%s%sif %s then\n%s%selse\n%s.brk %s\n", head, ind(lvl+2), c, inner, ind(lvl+2), ind(lvl+3), vTuple(vs)), nil
	})
	vc.cmode, vc.state, vc.pre = savedMode, savedState, savedPre
	if err != nil {
		return "", err
	}
	sb.WriteString(vc.flush(lvl))
	fuel, bounded := vc.whileBound(x, vs)
	if !bounded {
		fuel = "fuel"
		vc.usesFuel = true
	}
	fmt.Fprintf(&sb, "%s(Gzx.GoM.Ctl.%s (Gzx.GoM.whileLoop (σ := %s) (ρ := %s) (fun %s =>\n%s%s%s) %s %s)) fun %s =>\n",
		ind(lvl), vc.then(), vc.sigma(vs), vc.rho(), stVar(vs), vc.unpack(vs, lvl+2), bodyText, ind(lvl+1), fuel, vTuple(vs), stVar(vs))
	sb.WriteString(vc.unpack(vs, lvl))
	for _, o := range initObjs {
		delete(vc.objName, o)
	}
	r, err := vc.block(rest, lvl)
	if err != nil {
		return "", err
	}
	return sb.String() + r, nil
}

// whileBound: a `for` loop whose condition starts with `v < B` (B loop-invariant, free of checked operations) and whose only
// assignment to v is one final `v++` (the post statement, or the last top-level statement of the body) makes at most
// max(0, B - v) iterations: the fuel of the `whileLoop` is computed from the header (`tripUp v B 1 + 1`, the `+ 1` being the
// final failing test) and the definition needs no `fuel` parameter for this loop.
func (vc *vCtx) whileBound(x *ast.ForStmt, vs []string) (string, bool) {
	if x.Cond == nil {
		return "", false
	}
	cs := splitAnd(x.Cond)
	first, ok := cs[0].(*ast.BinaryExpr)
	if !ok || first.Op != token.LSS {
		return "", false
	}
	vid, ok := first.X.(*ast.Ident)
	if !ok {
		return "", false
	}
	v, ok := vc.varOf(vid)
	if !ok || vc.vtype[v] != "Int" {
		return "", false
	}
	vobj := vc.p.TypesInfo.Uses[vid]
	if vobj == nil || unsignedBits(vobj.Type()) > 0 {
		return "", false
	}
	if vc.mentions(first.Y, vs) {
		return "", false
	}
	b, ok := vc.pureEx(first.Y, "Int")
	if !ok {
		return "", false
	}
	isIncV := func(s ast.Stmt) bool {
		inc, ok := s.(*ast.IncDecStmt)
		if !ok || inc.Tok != token.INC {
			return false
		}
		id, ok := inc.X.(*ast.Ident)
		return ok && vc.p.TypesInfo.Uses[id] == vobj
	}
	body := x.Body.List
	switch {
	case x.Post != nil && isIncV(x.Post):
	case x.Post == nil && len(body) > 0 && isIncV(body[len(body)-1]):
		body = body[:len(body)-1]
	default:
		return "", false
	}
	other := false
	for _, st := range body {
		ast.Inspect(st, func(n ast.Node) bool {
			switch a := n.(type) {
			case *ast.AssignStmt:
				for _, l := range a.Lhs {
					if id, ok := l.(*ast.Ident); ok && vc.p.TypesInfo.Uses[id] == vobj {
						other = true
					}
				}
			case *ast.IncDecStmt:
				if id, ok := a.X.(*ast.Ident); ok && vc.p.TypesInfo.Uses[id] == vobj {
					other = true
				}
			case *ast.UnaryExpr:
				if a.Op == token.AND {
					other = true // address taken somewhere: give up
				}
			}
			return !other
		})
	}
	if other {
		return "", false
	}
	return fmt.Sprintf("(Gzx.GoM.tripUp %s %s 1 + 1)", v, b), true
}

// blockThen: the statements, then (if they fall through) the post statement, then `.next state`
func (vc *vCtx) blockThen(stmts []ast.Stmt, post ast.Stmt, lvl int) (string, error) {
	if post == nil {
		return vc.block(stmts, lvl)
	}
	// the post statement only mentions header variables, so it may simply follow the body's statements
	return vc.block(append(append([]ast.Stmt{}, stmts...), post), lvl)
}

func (vc *vCtx) rangeStmt(x *ast.RangeStmt, rest []ast.Stmt, lvl int) (string, error) {
	if hasBranch(x.Body) {
		return "", fmt.Errorf("break / continue / switch in a loop body")
	}
	if x.Tok != token.DEFINE && x.Key != nil {
		return "", fmt.Errorf("range with assignment")
	}
	lt, err := vc.vt(vc.p.TypesInfo.TypeOf(x.X))
	if err != nil || lt != "List Int" {
		return "", fmt.Errorf("range over %s", lt)
	}
	needV(vc.module)
	return vc.scoped(func() (string, error) {
		vs, err := vc.assignedOuter([]ast.Node{x.Body})
		if err != nil {
			return "", err
		}
		if vc.mentions(x.X, vs) {
			return "", fmt.Errorf("range over a slice the body writes")
		}
		xs, err := vc.ex(x.X, lt)
		if err != nil {
			return "", err
		}
		head := vc.flush(lvl)
		kn, vn := "_", "_"
		if id, ok := x.Key.(*ast.Ident); ok && id.Name != "_" {
			kn = vc.declare(vc.p.TypesInfo.Defs[id], "Int")
		}
		if id, ok := x.Value.(*ast.Ident); ok && id.Name != "_" {
			vn = vc.declare(vc.p.TypesInfo.Defs[id], "Int")
		}
		body, err := vc.inCtl(vs, x.Body.List, lvl+2)
		if err != nil {
			return "", err
		}
		var sb strings.Builder
		sb.WriteString(head)
		fmt.Fprintf(&sb, "%s(Gzx.GoM.Ctl.%s (Gzx.GoM.forRange (σ := %s) (ρ := %s) (fun %s %s %s =>\n%s%s%s) %s 0 %s)) fun %s =>\n",
			ind(lvl), vc.then(), vc.sigma(vs), vc.rho(), kn, vn, stVar(vs), vc.unpack(vs, lvl+2), body, ind(lvl+1), xs, vTuple(vs), stVar(vs))
		sb.WriteString(vc.unpack(vs, lvl))
		r, err := vc.block(rest, lvl)
		if err != nil {
			return "", err
		}
		return sb.String() + r, nil
	})
}

func needV(module string) {
	for _, i := range extraImports[module] {
		if i == "Gzx.GoMV" {
			return
		}
	}
	extraImports[module] = append(extraImports[module], "Gzx.GoMV")
}

// ---------- entries ----------

func genExtC04(p *packages.Package, e entry) (string, error) {
	if e.kind == "ambient" {
		return genAmbient(p, e)
	}
	vAuxPending = nil
	text, err := genFuncV(p, e)
	if err != nil {
		vAuxPending = nil
		return text, err
	}
	aux := strings.Join(vAuxPending, "\n")
	vAuxPending = nil
	return aux + text, nil
}

func genAmbient(p *packages.Package, e entry) (string, error) {
	obj := p.Types.Scope().Lookup(e.name)
	tn, ok := obj.(*types.TypeName)
	if !ok {
		return "", fmt.Errorf("type not found")
	}
	named, ok := tn.Type().(*types.Named)
	st, ok2 := tn.Type().Underlying().(*types.Struct)
	if !ok || !ok2 {
		return "", fmt.Errorf("not a struct type")
	}
	amb := &vAmbient{lean: e.lean, named: named, fields: map[string]string{}}
	vAmbients[e.module] = amb
	vc := &vCtx{p: p, module: e.module, amb: amb}
	var sb strings.Builder
	fmt.Fprintf(&sb, "/-- the ambient object: Go struct %s.%s (fields without a representation are omitted) -/\nstructure %s where\n", e.pkg, e.name, e.lean)
	for j := 0; j < st.NumFields(); j++ {
		lt, err := vc.vt(st.Field(j).Type())
		if err != nil || lt == vNone {
			continue
		}
		amb.fields[st.Field(j).Name()] = lt
		fmt.Fprintf(&sb, "  %s : %s\n", leanIdent(st.Field(j).Name()), lt)
	}
	needV(e.module)
	return sb.String(), nil
}

func genFuncV(p *packages.Package, e entry) (string, error) {
	fd := findFunc(p, e.name)
	if fd == nil || fd.Body == nil {
		return "", fmt.Errorf("function not found")
	}
	fn, _ := p.TypesInfo.Defs[fd.Name].(*types.Func)
	if fn == nil {
		return "", fmt.Errorf("function object not found")
	}
	needV(e.module)
	vc := &vCtx{p: p, module: e.module, lean: e.lean, amb: vAmbients[e.module], objName: map[types.Object]string{},
		nameCnt: map[string]int{}, vtype: map[string]string{}, writable: map[string]bool{}}
	if hasBranch(&ast.BlockStmt{List: fd.Body.List}) {
		// loops reject these themselves; at function level only closures / defer / switch matter
		bad := false
		ast.Inspect(fd.Body, func(n ast.Node) bool {
			switch n.(type) {
			case *ast.FuncLit, *ast.DeferStmt, *ast.GoStmt, *ast.SelectStmt, *ast.SwitchStmt, *ast.TypeSwitchStmt, *ast.LabeledStmt:
				bad = true
			}
			return !bad
		})
		if bad {
			return "", fmt.Errorf("closure / defer / switch / label")
		}
	}
	var fields []*ast.Field
	if fd.Recv != nil {
		fields = append(fields, fd.Recv.List...)
	}
	fields = append(fields, fd.Type.Params.List...)
	info := &vFunc{lean: e.lean}
	var lparams []string
	type pinfo struct {
		lean string
		ptr  bool
	}
	var pis []pinfo
	for _, fl := range fields {
		t := p.TypesInfo.TypeOf(fl.Type)
		lt, err := vc.vt(t)
		if err != nil {
			return "", err
		}
		if len(fl.Names) == 0 {
			return "", fmt.Errorf("unnamed parameter")
		}
		for _, n := range fl.Names {
			if n.Name == "_" {
				return "", fmt.Errorf("blank parameter")
			}
			info.params = append(info.params, lt)
			if lt == vNone {
				vc.usesGF = true
				ln := vc.declare(p.TypesInfo.Defs[n], vNone)
				pis = append(pis, pinfo{ln, false})
				continue
			}
			ln := vc.declare(p.TypesInfo.Defs[n], lt)
			vc.params = append(vc.params, ln)
			_, isPtr := t.Underlying().(*types.Pointer)
			_, isSlice := t.Underlying().(*types.Slice)
			if isPtr {
				vc.usesGF = true
			}
			vc.writable[ln] = isPtr || isSlice
			pis = append(pis, pinfo{ln, isPtr || isSlice})
			lparams = append(lparams, fmt.Sprintf("(%s : %s)", ln, lt))
		}
	}
	// written parameters
	written, err := vc.assignedOuter([]ast.Node{fd.Body})
	if err != nil {
		return "", err
	}
	wset := map[string]bool{}
	for _, w := range written {
		wset[w] = true
	}
	for i, pi := range pis {
		if pi.ptr && wset[pi.lean] && vc.writtenThrough(fd.Body, pi.lean) {
			info.outs = append(info.outs, i)
			vc.outs = append(vc.outs, pi.lean)
		}
	}
	// results
	var named []*ast.Ident
	if fd.Type.Results != nil {
		for _, fl := range fd.Type.Results.List {
			lt, err := vc.vt(p.TypesInfo.TypeOf(fl.Type))
			if err != nil {
				return "", err
			}
			if lt == vNone {
				return "", fmt.Errorf("result without representation")
			}
			n := len(fl.Names)
			if n == 0 {
				n = 1
			}
			for i := 0; i < n; i++ {
				info.results = append(info.results, lt)
			}
			named = append(named, fl.Names...)
		}
	}
	vc.resTypes = info.results
	vc.retTypes = append([]string{}, info.results...)
	for _, o := range vc.outs {
		vc.retTypes = append(vc.retTypes, vc.vtype[o])
	}
	if len(vc.retTypes) == 0 {
		return "", fmt.Errorf("no result")
	}
	vc.void = len(info.results) == 0
	var pre strings.Builder
	for i, n := range named {
		if n.Name == "_" {
			continue
		}
		ln := vc.declare(p.TypesInfo.Defs[n], info.results[i])
		pre.WriteString(vc.letLine(1, ln, vZero(info.results[i])))
	}
	body, err := vc.block(fd.Body.List, 1)
	if err != nil {
		return "", err
	}
	info.fuel, info.gf = vc.usesFuel, vc.usesGF
	if info.gf {
		if vc.amb == nil {
			return "", fmt.Errorf("no ambient declaration for module %s", e.module)
		}
		lparams = append([]string{fmt.Sprintf("(gf : %s)", vc.amb.lean)}, lparams...)
	}
	if info.fuel {
		lparams = append([]string{"(fuel : Nat)"}, lparams...)
	}
	vCallees[e.module+"|"+fn.FullName()] = info
	return fmt.Sprintf("/-- translated from %s.%s -/\ndef %s %s : Gzx.Res (%s) :=\n%s%s", e.pkg, e.name, e.lean, strings.Join(lparams, " "), vc.rho(), pre.String(), body), nil
}

// writtenThrough: is parameter v written THROUGH (element / field write, copy into, written by a callee) rather than only
// re-pointed?  (`a, b = b, a` on pointer parameters only rebinds the local names.)
func (vc *vCtx) writtenThrough(body *ast.BlockStmt, v string) bool {
	found := false
	isV := func(e ast.Expr) bool {
		for {
			switch x := e.(type) {
			case *ast.ParenExpr:
				e = x.X
				continue
			case *ast.Ident:
				n, ok := vc.varOf(x)
				return ok && n == v
			}
			return false
		}
	}
	through := func(e ast.Expr) bool {
		switch x := e.(type) {
		case *ast.IndexExpr:
			return isV(x.X)
		case *ast.SliceExpr:
			return isV(x.X)
		case *ast.SelectorExpr:
			return isV(x.X)
		}
		return false
	}
	ast.Inspect(body, func(n ast.Node) bool {
		switch x := n.(type) {
		case *ast.AssignStmt:
			for _, l := range x.Lhs {
				if through(l) {
					found = true
				}
			}
		case *ast.IncDecStmt:
			if through(x.X) {
				found = true
			}
		case *ast.CallExpr:
			if id, ok := x.Fun.(*ast.Ident); ok && id.Name == "copy" && len(x.Args) == 2 {
				if through(x.Args[0]) || isV(x.Args[0]) {
					found = true
				}
			}
			var fn *types.Func
			var actual []ast.Expr
			switch f := x.Fun.(type) {
			case *ast.Ident:
				fn, _ = vc.p.TypesInfo.Uses[f].(*types.Func)
			case *ast.SelectorExpr:
				fn, _ = vc.p.TypesInfo.Uses[f.Sel].(*types.Func)
				if sel := vc.p.TypesInfo.Selections[f]; sel != nil && sel.Kind() == types.MethodVal {
					actual = append(actual, f.X)
				}
			}
			if fn != nil {
				if ci := vCallees[vc.module+"|"+fn.FullName()]; ci != nil {
					actual = append(actual, x.Args...)
					for _, pi := range ci.outs {
						if pi < len(actual) && (isV(actual[pi]) || through(actual[pi])) {
							found = true
						}
					}
				}
			}
		}
		return !found
	})
	return found
}
