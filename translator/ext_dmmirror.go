// Extensions of the monadic target (kind `funcm`, see monadic.go) made by work package dmmirror for the Data Matrix
// encoder / decoder loops (tables.d/K08b.txt; run-time library lean/Gzx/GoMDm.lean; theorems Obligations/K08b*.lean).
// monadic.go calls in here through a handful of one-line hooks (`fc.ext…`); nothing in this file changes the
// translation of a function that was translatable before.
//
//   - package-level tables FILLED BY `func init()` (`log`, `alog` of datamatrix/encoder): a package-level []int / []byte
//     variable all of whose assignments (whole, element, append / copy target, address-of) sit inside the package's
//     `init` functions is a PARAMETER of every kernel that reads it (named like the Go variable, before the Go
//     parameters, in source order).  `funcm M name pkg init` translates `init` itself: the tables it assigns start as
//     `[]` (nil) and are its results, in source order — so `init = .ok (log, alog)` is a kernel theorem and the
//     kernels that take `log alog` are instantiated with exactly these;
//   - two-level constant tables: `factors[t]` of a package-level `[][]int` whose initialiser is a constant literal that
//     nothing assigns is `Gzx.GoM.idxL tbl_factors t` (checked) on an inlined `List (List Int)`;
//   - `a && b` / `a || b` with a checked operation (index read, division …) in `b`: `b` is evaluated only when Go
//     evaluates it: `if a then (checked b) else .ok false`;
//   - function-valued struct fields (`SymbolInfo.funcGetInterleavedBlockCount`): the field is an `Int` SELECTOR
//     parameter; the candidates are the package-level functions assigned to that field anywhere in the package (every
//     assignment must name one; the field must be unexported), numbered in name order and exported as
//     `fsel_<Struct>_<field>_<func>`; a call `x.f(args)` dispatches on the selector (any other value: nil-func panic);
//     every candidate must have been translated earlier into the same module;
//   - calls of functions translated earlier into the same module that take struct parameters (the argument must be a
//     struct parameter of the caller: its fields are passed on), init-filled tables or fuel;
//   - slices with an OBSERVED capacity: a local slice `x` on which the function applies `cap(x)` or re-slices
//     (`x = x[a:b]`) carries its backing array beyond `len` as a companion local `x_bk` (`make([]T, n, c)` = n zeros +
//     c-n hidden zeros; `x = append(x, …)` consumes hidden cells; appending BEYOND an observed capacity is
//     implementation-defined in Go (growslice) and is the fault `capGrow` of GoMDm); for other locals
//     `make([]T, n, c)` keeps the two makeslice checks and forgets the capacity; `x = append(x, v)` / `append(x, ys...)`
//     are supported in exactly this self-assignment form on a local that is not a parameter.
package main

import (
	"fmt"
	"go/ast"
	"go/constant"
	"go/token"
	"go/types"
	"sort"
	"strings"
)

const dmxRuntime = "Gzx.GoMDm"

func needDm(module string) {
	for _, i := range extraImports[module] {
		if i == dmxRuntime {
			return
		}
	}
	extraImports[module] = append(extraImports[module], dmxRuntime)
}

// ---------- per-function state (kept outside fnCtx so that monadic.go's types stay untouched) ----------

type dmxFn struct {
	globals  []string        // init-filled tables this kernel takes as parameters (source order)
	isInit   bool            // the function being translated is `init`
	initOuts []string        // init: the tables it assigns
	tracked  map[string]bool // locals with an observed capacity (companion `<x>_bk`)
	prefix   string          // lets placed in front of the body
	resGo    []types.Type    // Go result types (for `return nil, err` of a flattened slice-of-structs result)
}

var dmxFns = map[*fnCtx]*dmxFn{}

func (fc *fnCtx) ext() *dmxFn {
	if e, ok := dmxFns[fc]; ok {
		return e
	}
	e := &dmxFn{tracked: map[string]bool{}}
	dmxFns[fc] = e
	return e
}

// ---------- callees with struct parameters / init tables / fuel ----------

type dmxParam struct {
	isStruct bool
	fields   []string // struct parameter: the fields the callee takes, in its parameter order
	isNil    bool     // struct parameter: the callee takes `<x>_isNil` first
	list     bool     // plain parameter of slice / string type
}

type dmxCallee struct {
	lean    string
	fuel    bool
	globals []string
	params  []dmxParam // receiver first
	nres    int
	res     []string // Lean result types
}

var dmxCallees = map[string]dmxCallee{} // "<module>|<pkg>.<Func>" / "<module>|<pkg>.<Recv>.<Method>"

// ---------- init-filled package-level tables ----------

// pkgLevelVar: the package-level variable an identifier denotes (nil otherwise)
func (fc *fnCtx) pkgLevelVar(id *ast.Ident) *types.Var {
	obj, ok := fc.p.TypesInfo.Uses[id].(*types.Var)
	if !ok || obj.Pkg() == nil || obj.Parent() != obj.Pkg().Scope() {
		return nil
	}
	return obj
}

// initOnly: every write access to the package-level variable sits inside an `init` function of its package, and it has
// no initialiser of its own (it is nil until init runs).
func initOnly(obj *types.Var) bool {
	op := pkgs[obj.Pkg().Path()]
	if op == nil || obj.Exported() {
		return false
	}
	if ex, _ := findVarInit(op, obj.Name()); ex != nil {
		return false
	}
	refers := func(e ast.Expr) bool {
		for {
			switch x := e.(type) {
			case *ast.ParenExpr:
				e = x.X
			case *ast.IndexExpr:
				e = x.X
			case *ast.SliceExpr:
				e = x.X
			case *ast.Ident:
				return op.TypesInfo.Uses[x] == obj
			default:
				return false
			}
		}
	}
	bad, written := false, false
	for _, f := range op.Syntax {
		for _, d := range f.Decls {
			fd, isF := d.(*ast.FuncDecl)
			inInit := isF && fd.Recv == nil && fd.Name.Name == "init"
			ast.Inspect(d, func(n ast.Node) bool {
				w := false
				switch x := n.(type) {
				case *ast.AssignStmt:
					for _, l := range x.Lhs {
						if refers(l) {
							w = true
						}
					}
					// `y := log` / `y = log[a:b]` would alias the table
					for _, r := range x.Rhs {
						switch r.(type) {
						case *ast.Ident, *ast.SliceExpr:
							if refers(r) {
								bad = true
							}
						}
					}
				case *ast.IncDecStmt:
					w = refers(x.X)
				case *ast.UnaryExpr:
					if x.Op == token.AND && refers(x.X) {
						bad = true
					}
				case *ast.RangeStmt:
					if x.Tok == token.ASSIGN && ((x.Key != nil && refers(x.Key)) || (x.Value != nil && refers(x.Value))) {
						w = true
					}
				case *ast.CallExpr:
					if id, ok := x.Fun.(*ast.Ident); ok && (id.Name == "copy" || id.Name == "append") && len(x.Args) > 0 && refers(x.Args[0]) {
						w = true
					}
					// handing the slice itself to any other function could let it be written
					for _, a := range x.Args {
						if id, ok := a.(*ast.Ident); ok && op.TypesInfo.Uses[id] == obj {
							if fid, ok := x.Fun.(*ast.Ident); !ok || (fid.Name != "len" && fid.Name != "cap") {
								bad = true
							}
						}
					}
				case *ast.ReturnStmt:
					for _, r := range x.Results {
						if id, ok := r.(*ast.Ident); ok && op.TypesInfo.Uses[id] == obj {
							bad = true
						}
					}
				}
				if w {
					written = true
					if !inInit {
						bad = true
					}
				}
				return !bad
			})
		}
	}
	return written && !bad
}

// dmxGlobals (hook, start of genFuncM): declares the init-filled tables the function (or a callee) reads as leading
// parameters; for `init` itself, the tables it assigns as locals starting at `[]`.
func (fc *fnCtx) dmxGlobals(fd *ast.FuncDecl, params []string) ([]string, error) {
	if !dmxOn() {
		return params, nil
	}

	ex := fc.ext()
	ex.isInit = fd.Recv == nil && fd.Name.Name == "init"
	seen := map[string]bool{}
	type gv struct {
		name string
		pos  token.Pos
	}
	var gs []gv
	var err error
	add := func(name string, pos token.Pos) {
		if !seen[name] {
			seen[name] = true
			gs = append(gs, gv{name, pos})
		}
	}
	ast.Inspect(fd.Body, func(n ast.Node) bool {
		switch x := n.(type) {
		case *ast.Ident:
			if obj := fc.pkgLevelVar(x); obj != nil {
				if lt, e := leanTypeM(obj.Type()); e == nil && lt == "List Int" && initOnly(obj) {
					add(obj.Name(), obj.Pos())
				}
			}
		case *ast.CallExpr:
			if ci, ok := fc.dmxCalleeOf(x); ok {
				for _, g := range ci.globals {
					if obj, ok := fc.p.Types.Scope().Lookup(g).(*types.Var); ok {
						add(g, obj.Pos())
					} else {
						err = fmt.Errorf("callee table %s is not a variable of this package", g)
					}
				}
			}
		}
		return true
	})
	if err != nil {
		return nil, err
	}
	sort.Slice(gs, func(i, j int) bool { return gs[i].pos < gs[j].pos })
	// a local of the same name would be confused with the table
	var clash string
	ast.Inspect(fd, func(n ast.Node) bool {
		if id, ok := n.(*ast.Ident); ok && seen[id.Name] {
			if obj := fc.p.TypesInfo.Defs[id]; obj != nil {
				clash = id.Name
			}
		}
		return true
	})
	if clash != "" {
		return nil, fmt.Errorf("local %s shadows an init-filled table", clash)
	}
	for _, g := range gs {
		fc.declare(g.name, "List Int")
		if ex.isInit {
			ex.initOuts = append(ex.initOuts, g.name)
			ex.prefix += fmt.Sprintf("  let %s : List Int := []\n", leanIdent(g.name))
			continue
		}
		ex.globals = append(ex.globals, g.name)
		fc.paramNames = append(fc.paramNames, g.name)
		params = append(params, fmt.Sprintf("(%s : List Int)", leanIdent(g.name)))
	}
	return params, nil
}

// dmxInitOuts (hook): `init` returns the tables it fills
func (fc *fnCtx) dmxInitOuts(outTypes []string) []string {
	if !dmxOn() {
		return outTypes
	}

	for _, g := range fc.ext().initOuts {
		fc.m.outVars = append(fc.m.outVars, g)
		outTypes = append(outTypes, "List Int")
	}
	return outTypes
}

// dmxBody (hook): lets in front of the translated body
func (fc *fnCtx) dmxBody(body string) string {
	if !dmxOn() {
		return body
	}
	return fc.ext().prefix + body
}

// ---------- function-valued struct fields ----------

// funcFieldCands: the package-level functions assigned to field `fname` of struct `st` (nil: not a closed set)
func funcFieldCands(p *types.Package, st *types.Struct, fname string) []string {
	var fld *types.Var
	for j := 0; j < st.NumFields(); j++ {
		if st.Field(j).Name() == fname {
			fld = st.Field(j)
		}
	}
	if fld == nil || fld.Exported() || fld.Pkg() == nil {
		return nil
	}
	if _, ok := fld.Type().Underlying().(*types.Signature); !ok {
		return nil
	}
	op := pkgs[fld.Pkg().Path()]
	if op == nil {
		return nil
	}
	set := map[string]bool{}
	ok := true
	named := func(e ast.Expr) {
		id, isId := e.(*ast.Ident)
		if !isId {
			ok = false
			return
		}
		fn, isFn := op.TypesInfo.Uses[id].(*types.Func)
		if !isFn || fn.Pkg() != fld.Pkg() || fn.Type().(*types.Signature).Recv() != nil {
			ok = false
			return
		}
		set[fn.Name()] = true
	}
	for _, f := range op.Syntax {
		ast.Inspect(f, func(n ast.Node) bool {
			switch x := n.(type) {
			case *ast.AssignStmt:
				for i, l := range x.Lhs {
					if sel, isSel := l.(*ast.SelectorExpr); isSel && op.TypesInfo.Uses[sel.Sel] == fld {
						if len(x.Lhs) != len(x.Rhs) || x.Tok != token.ASSIGN {
							ok = false
						} else {
							named(x.Rhs[i])
						}
					}
				}
			case *ast.UnaryExpr:
				if sel, isSel := x.X.(*ast.SelectorExpr); isSel && x.Op == token.AND && op.TypesInfo.Uses[sel.Sel] == fld {
					ok = false
				}
			case *ast.CompositeLit:
				t := op.TypesInfo.TypeOf(x)
				if t == nil || structOf(t) != st {
					return true
				}
				for i, el := range x.Elts {
					if kv, isKV := el.(*ast.KeyValueExpr); isKV {
						if id, isId := kv.Key.(*ast.Ident); isId && id.Name == fname {
							named(kv.Value)
						}
					} else if i < st.NumFields() && st.Field(i) == fld {
						named(el)
					}
				}
			}
			return ok
		})
	}
	if !ok || len(set) == 0 {
		return nil
	}
	var out []string
	for n := range set {
		out = append(out, n)
	}
	sort.Strings(out)
	return out
}

// dmxFieldType (hook in fieldKey and in genFuncM's field declaration): function-valued field -> "Int" selector
func (fc *fnCtx) dmxFieldType(st *types.Struct, j int) (string, bool) {
	if !dmxOn() {
		return "", false
	}

	if fc.m == nil {
		return "", false
	}
	f := st.Field(j)
	if _, ok := f.Type().Underlying().(*types.Signature); !ok {
		return "", false
	}
	if funcFieldCands(fc.p.Types, st, f.Name()) == nil {
		return "", false
	}
	return "Int", true
}

func structTypeName(fc *fnCtx, name string) string {
	// the named type behind the struct parameter
	if obj := fc.p.Types.Scope(); obj != nil {
		for _, n := range obj.Names() {
			if tn, ok := obj.Lookup(n).(*types.TypeName); ok {
				if st, ok := tn.Type().Underlying().(*types.Struct); ok && st == fc.structs[name] {
					return tn.Name()
				}
			}
		}
	}
	return "T"
}

// ---------- calls ----------

// dmxCalleeOf: the call is to a function / method translated earlier into this module and registered with dmxCallees
func (fc *fnCtx) dmxCalleeOf(call *ast.CallExpr) (dmxCallee, bool) {
	if fc.m == nil {
		return dmxCallee{}, false
	}
	switch f := call.Fun.(type) {
	case *ast.Ident:
		if fn, ok := fc.p.TypesInfo.Uses[f].(*types.Func); ok && fn.Pkg() != nil {
			ci, ok := dmxCallees[fc.m.module+"|"+relPkg(fn.Pkg().Path())+"."+fn.Name()]
			return ci, ok && len(ci.params) == len(call.Args)
		}
	case *ast.SelectorExpr:
		if fn, ok := fc.p.TypesInfo.Uses[f.Sel].(*types.Func); ok && fn.Pkg() != nil {
			sig, ok := fn.Type().(*types.Signature)
			if !ok || sig.Recv() == nil {
				return dmxCallee{}, false
			}
			ci, ok := dmxCallees[fc.m.module+"|"+relPkg(fn.Pkg().Path())+"."+typeName(sig.Recv().Type())+"."+fn.Name()]
			return ci, ok && len(ci.params) == len(call.Args)+1
		}
	}
	return dmxCallee{}, false
}

// dmxCallText: `<lean> [fuel] <tables> <arguments, struct arguments as their fields>`
func (fc *fnCtx) dmxCallText(ci dmxCallee, args []ast.Expr) (string, error) {
	parts := []string{ci.lean}
	if ci.fuel {
		fc.m.fuelUsed = true
		parts = append(parts, "fuel")
	}
	for _, g := range ci.globals {
		if _, ok := fc.locals[g]; !ok {
			return "", fmt.Errorf("table %s of callee %s is not in scope", g, ci.lean)
		}
		parts = append(parts, fc.name(g))
	}
	for i, pa := range ci.params {
		a := args[i]
		if pa.isStruct {
			id, ok := a.(*ast.Ident)
			if !ok {
				return "", fmt.Errorf("struct argument of %s is not a struct parameter", ci.lean)
			}
			if _, ok := fc.structs[id.Name]; !ok {
				return "", fmt.Errorf("struct argument %s of %s is not a struct parameter", id.Name, ci.lean)
			}
			if pa.isNil {
				key := id.Name + "_isNil"
				if _, seen := fc.locals[key]; !seen {
					return "", fmt.Errorf("callee %s tests %s for nil", ci.lean, id.Name)
				}
				fc.fieldsUsed[key] = "Bool"
				parts = append(parts, fc.name(key))
			}
			for _, f := range pa.fields {
				s, err := fc.expr(&ast.SelectorExpr{X: &ast.Ident{Name: id.Name}, Sel: &ast.Ident{Name: f}})
				if err != nil {
					return "", err
				}
				parts = append(parts, s)
			}
			continue
		}
		var s string
		var err error
		if pa.list {
			s, err = fc.lexpr(a)
		} else {
			s, err = fc.expr(a)
		}
		if err != nil {
			return "", err
		}
		parts = append(parts, s)
	}
	return strings.Join(parts, " "), nil
}

// dmxUsed (hook, end of usedNames): names a node uses beyond its identifiers — companions of capacity-tracked slices,
// tables and struct fields a callee takes, candidates' fields of a dispatched call
func (fc *fnCtx) dmxUsed(nodes []ast.Node, used map[string]bool) {
	if !dmxOn() {
		return
	}

	if fc.m == nil {
		return
	}
	ex := fc.ext()
	for _, nd := range nodes {
		ast.Inspect(nd, func(n ast.Node) bool {
			switch x := n.(type) {
			case *ast.Ident:
				if ex.tracked[x.Name] {
					used[x.Name+"_bk"] = true
				}
			case *ast.CallExpr:
				if sel, isSel := x.Fun.(*ast.SelectorExpr); isSel && len(x.Args) == 0 {
					if id, isId := sel.X.(*ast.Ident); isId {
						if _, isStruct := fc.structs[id.Name]; isStruct {
							if field, ok := trivialGetter(fc.p, sel); ok {
								if key, lt, ok := fc.fieldKey(&ast.SelectorExpr{X: id, Sel: &ast.Ident{Name: field}}); ok {
									used[key] = true
									fc.fieldsUsed[key] = lt
								}
							}
						}
					}
				}
				var cis []dmxCallee
				var args []ast.Expr
				if ci, ok := fc.dmxCalleeOf(x); ok {
					cis = append(cis, ci)
					args = x.Args
					if sel, isSel := x.Fun.(*ast.SelectorExpr); isSel {
						args = append([]ast.Expr{sel.X}, x.Args...)
					}
				} else if cands, _, ok := fc.dispatchOf(x); ok {
					cis = cands
					args = x.Args
				}
				for _, ci := range cis {
					for _, g := range ci.globals {
						used[g] = true
					}
					for i, pa := range ci.params {
						if id, ok := args[i].(*ast.Ident); ok && pa.isStruct {
							for _, f := range pa.fields {
								used[id.Name+"_"+f] = true
								if st, ok := fc.structs[id.Name]; ok {
									for j := 0; j < st.NumFields(); j++ {
										if st.Field(j).Name() == f {
											if lt, err := leanTypeM(st.Field(j).Type()); err == nil {
												fc.fieldsUsed[id.Name+"_"+f] = lt
											} else if lt, ok := fc.dmxFieldType(st, j); ok {
												fc.fieldsUsed[id.Name+"_"+f] = lt
											}
										}
									}
								}
							}
							if pa.isNil {
								used[id.Name+"_isNil"] = true
							}
						}
					}
				}
			}
			return true
		})
	}
}

// dmxAssigned (hook, end of assignedIn3): a capacity-tracked slice assigned as a whole changes its companion too
func dmxAssigned(assigned, whole map[string]bool) {
	if !dmxOn() {
		return
	}

	if curFC == nil || curFC.m == nil {
		return
	}
	for n := range curFC.ext().tracked {
		if whole[n] {
			assigned[n+"_bk"] = true
			whole[n+"_bk"] = true
		}
	}
}

// dispatchOf: `x.f(args)` with x a struct parameter and f a function-valued field with a closed candidate set
func (fc *fnCtx) dispatchOf(call *ast.CallExpr) ([]dmxCallee, string, bool) {
	sel, ok := call.Fun.(*ast.SelectorExpr)
	if !ok || fc.m == nil {
		return nil, "", false
	}
	id, ok := sel.X.(*ast.Ident)
	if !ok {
		return nil, "", false
	}
	st, ok := fc.structs[id.Name]
	if !ok {
		return nil, "", false
	}
	if _, isField := fc.p.TypesInfo.Uses[sel.Sel].(*types.Var); !isField {
		return nil, "", false
	}
	names := funcFieldCands(fc.p.Types, st, sel.Sel.Name)
	if names == nil {
		return nil, "", false
	}
	var cis []dmxCallee
	for _, n := range names {
		ci, ok := dmxCallees[fc.m.module+"|"+relPkg(fc.p.PkgPath)+"."+n]
		if !ok || len(ci.params) != len(call.Args) || ci.nres != 1 || len(ci.res) != 1 {
			return nil, "", false
		}
		cis = append(cis, ci)
	}
	return cis, id.Name + "_" + sel.Sel.Name, true
}

// dmxMexpr (hook, start of mexpr)
func (fc *fnCtx) dmxMexpr(ex ast.Expr) (string, bool, error) {
	if !dmxOn() {
		return "", false, nil
	}

	fail := func(f string, a ...interface{}) (string, bool, error) { return "", true, fmt.Errorf(f, a...) }
	switch x := ex.(type) {
	case *ast.Ident:
		// a package-level integer variable with a constant initialiser that nothing assigns (`moduloValue = 0x12d`)
		if _, isLocal := fc.locals[x.Name]; isLocal {
			return "", false, nil
		}
		if obj := fc.pkgLevelVar(x); obj != nil {
			if lt, err := leanType(obj.Type()); err == nil && lt == "Int" && !assignedAnywhere(fc.p, obj) {
				if op := pkgs[obj.Pkg().Path()]; op != nil {
					if init, ip := findVarInit(op, obj.Name()); init != nil {
						if tv, ok := ip.TypesInfo.Types[init]; ok && tv.Value != nil && tv.Value.Kind() == constant.Int {
							s := tv.Value.ExactString()
							if strings.HasPrefix(s, "-") {
								s = "(" + s + ")"
							}
							return s, true, nil
						}
					}
				}
			}
		}
		return "", false, nil
	case *ast.BinaryExpr:
		if x.Op != token.LAND && x.Op != token.LOR {
			return "", false, nil
		}
		a, err := fc.expr(x.X)
		if err != nil {
			return "", true, err
		}
		n0 := len(fc.m.pre)
		b, err := fc.expr(x.Y)
		if err != nil {
			return "", true, err
		}
		if len(fc.m.pre) == n0 {
			s, err := binop(x.Op.String(), a, b)
			return s, true, err
		}
		// the checked operations of `b` are made only when Go evaluates `b`
		inner := append([]mbind{}, fc.m.pre[n0:]...)
		fc.m.pre = fc.m.pre[:n0]
		var sb strings.Builder
		for _, bd := range inner {
			fmt.Fprintf(&sb, "Gzx.GoM.tryR (%s) fun %s => ", bd.expr, bd.name)
		}
		sb.WriteString("Except.ok " + b)
		if x.Op == token.LAND {
			return fc.bind(fmt.Sprintf("(if %s then (%s) else Except.ok false : Gzx.Res Bool)", a, sb.String())), true, nil
		}
		return fc.bind(fmt.Sprintf("(if %s then Except.ok true else (%s) : Gzx.Res Bool)", a, sb.String())), true, nil
	case *ast.CallExpr:
		if id, ok := x.Fun.(*ast.Ident); ok && id.Name == "cap" && len(x.Args) == 1 {
			if _, isBuiltin := fc.p.TypesInfo.Uses[id].(*types.Builtin); isBuiltin {
				v, ok := x.Args[0].(*ast.Ident)
				if !ok || !fc.ext().tracked[v.Name] {
					return fail("cap of something that is not a capacity-tracked local")
				}
				return fmt.Sprintf("(Gzx.GoM.len %s + Gzx.GoM.len %s)", fc.name(v.Name), fc.name(v.Name+"_bk")), true, nil
			}
		}
		if cis, selKey, ok := fc.dispatchOf(x); ok {
			sel := x.Fun.(*ast.SelectorExpr)
			recv := sel.X.(*ast.Ident).Name
			if _, seen := fc.locals[selKey]; !seen {
				return fail("function-valued field %s is not a translated field", selKey)
			}
			fc.fieldsUsed[selKey] = "Int"
			names := funcFieldCands(fc.p.Types, fc.structs[recv], sel.Sel.Name)
			tn := structTypeName(fc, recv)
			var sb strings.Builder
			sb.WriteString("(")
			for k, ci := range cis {
				cname := fmt.Sprintf("fsel_%s_%s_%s", tn, sel.Sel.Name, names[k])
				if !fc.m.tableSeen[cname] && !moduleTables[fc.m.module+"|"+cname] {
					fc.m.tableSeen[cname] = true
					fc.m.tables = append(fc.m.tables, fmt.Sprintf("/-- selector value of field %s.%s that stands for the function %s -/\ndef %s : Int := %d\n",
						tn, sel.Sel.Name, names[k], cname, k))
				}
				if len(ci.res) != 1 || ci.res[0] != cis[0].res[0] {
					return fail("candidates of %s differ in their result type", selKey)
				}
				call, err := fc.dmxCallText(ci, x.Args)
				if err != nil {
					return "", true, err
				}
				fmt.Fprintf(&sb, "if %s == %s then %s else ", fc.name(selKey), cname, call)
			}
			fmt.Fprintf(&sb, "Except.error (Gzx.Fault.panic \"call of a nil func value\") : Gzx.Res (%s))", cis[0].res[0])
			return fc.bind(sb.String()), true, nil
		}
		if ci, ok := fc.dmxCalleeOf(x); ok {
			args := x.Args
			if sel, isSel := x.Fun.(*ast.SelectorExpr); isSel {
				args = append([]ast.Expr{sel.X}, x.Args...)
			}
			call, err := fc.dmxCallText(ci, args)
			if err != nil {
				return "", true, err
			}
			return fc.bind(call), true, nil
		}
	}
	return "", false, nil
}

// ---------- two-level constant tables ----------

func (fc *fnCtx) constList2(ex ast.Expr) ([][]int64, bool) {
	id, ok := ex.(*ast.Ident)
	if !ok {
		return nil, false
	}
	obj := fc.pkgLevelVar(id)
	if obj == nil || assignedAnywhere(fc.p, obj) {
		return nil, false
	}
	sl, ok := obj.Type().Underlying().(*types.Slice)
	if !ok {
		return nil, false
	}
	if lt, err := leanTypeM(sl.Elem()); err != nil || lt != "List Int" {
		return nil, false
	}
	op := pkgs[obj.Pkg().Path()]
	if op == nil {
		return nil, false
	}
	init, ip := findVarInit(op, obj.Name())
	cl, ok := init.(*ast.CompositeLit)
	if !ok {
		return nil, false
	}
	var out [][]int64
	for _, el := range cl.Elts {
		if _, isKV := el.(*ast.KeyValueExpr); isKV {
			return nil, false
		}
		row, ok := fc.constList(ip, el, 0)
		if !ok {
			return nil, false
		}
		out = append(out, row)
	}
	return out, true
}

// dmxLexpr (hook, start of lexpr)
func (fc *fnCtx) dmxLexpr(ex ast.Expr) (string, bool, error) {
	if !dmxOn() {
		return "", false, nil
	}

	if fc.m == nil {
		return "", false, nil
	}
	if x, ok := ex.(*ast.IndexExpr); ok {
		if id, isId := x.X.(*ast.Ident); isId {
			if _, isLocal := fc.locals[id.Name]; isLocal && fc.m.ltype[id.Name] == "List (List Int)" {
				i, err := fc.expr(x.Index)
				if err != nil {
					return "", true, err
				}
				needDm(fc.m.module)
				return fc.bind(fmt.Sprintf("Gzx.GoM.idxL %s %s", fc.name(id.Name), i)), true, nil
			}
		}
		if rows, ok := fc.constList2(x.X); ok {
			name := "tbl_" + x.X.(*ast.Ident).Name
			if !fc.m.tableSeen[name] && !moduleTables[fc.m.module+"|"+name] {
				fc.m.tableSeen[name] = true
				var rs []string
				for _, r := range rows {
					rs = append(rs, "  "+intLitList(r))
				}
				fc.m.tables = append(fc.m.tables, fmt.Sprintf("/-- package-level two-level table %s (inlined) -/\ndef %s : List (List Int) := [\n%s]\n",
					x.X.(*ast.Ident).Name, name, strings.Join(rs, ",\n")))
			}
			i, err := fc.expr(x.Index)
			if err != nil {
				return "", true, err
			}
			needDm(fc.m.module)
			return fc.bind(fmt.Sprintf("Gzx.GoM.idxL %s %s", name, i)), true, nil
		}
	}
	return "", false, nil
}

// ---------- make with capacity, append, re-slicing ----------

// dmxScanTracked (called from dmxGlobals' caller, before the body is translated): locals whose capacity is observed
func (fc *fnCtx) dmxScanTracked(fd *ast.FuncDecl) {
	if !dmxOn() {
		return
	}

	ex := fc.ext()
	ast.Inspect(fd.Body, func(n ast.Node) bool {
		switch x := n.(type) {
		case *ast.CallExpr:
			if id, ok := x.Fun.(*ast.Ident); ok && id.Name == "cap" && len(x.Args) == 1 {
				if v, ok := x.Args[0].(*ast.Ident); ok {
					ex.tracked[v.Name] = true
				}
			}
		case *ast.SliceExpr:
			if t := fc.p.TypesInfo.TypeOf(x.X); t != nil {
				if _, isSlice := t.Underlying().(*types.Slice); isSlice {
					if v, ok := x.X.(*ast.Ident); ok {
						ex.tracked[v.Name] = true
					}
				}
			}
		}
		return true
	})
	for _, p := range fc.paramNames {
		delete(ex.tracked, p) // the capacity of a parameter is the caller's: `cap(p)` stays untranslatable
	}
}

// dmxAssign (hook, start of massign): `x := make([]T, n, c)`, `x = append(x, …)`, `x = x[a:b]` on a local slice
func (fc *fnCtx) dmxAssign(x *ast.AssignStmt, rest []ast.Stmt, lvl int) (string, bool, error) {
	if !dmxOn() {
		return "", false, nil
	}

	if fc.m == nil || fc.m.region || len(x.Lhs) != 1 || len(x.Rhs) != 1 || (x.Tok != token.DEFINE && x.Tok != token.ASSIGN) {
		return "", false, nil
	}
	if s, handled, err := fc.dmxAssignLL(x, rest, lvl); handled {
		return s, true, err
	}
	id, ok := x.Lhs[0].(*ast.Ident)
	if !ok || id.Name == "_" {
		return "", false, nil
	}
	fail := func(f string, a ...interface{}) (string, bool, error) { return "", true, fmt.Errorf(f, a...) }
	ex := fc.ext()
	tracked := ex.tracked[id.Name]
	finish := func(t string, pair bool) (string, bool, error) {
		var sb strings.Builder
		sb.WriteString(fc.flush(lvl))
		fc.declare(id.Name, "List Int")
		if pair {
			fmt.Fprintf(&sb, "%slet %s := %s.1\n", ind(lvl), fc.name(id.Name), t)
			fc.declare(id.Name+"_bk", "List Int")
			fmt.Fprintf(&sb, "%slet %s := %s.2\n", ind(lvl), fc.name(id.Name+"_bk"), t)
		} else {
			fmt.Fprintf(&sb, "%slet %s := %s\n", ind(lvl), fc.name(id.Name), t)
			if tracked {
				fc.declare(id.Name+"_bk", "List Int")
				fmt.Fprintf(&sb, "%slet %s : List Int := []\n", ind(lvl), fc.name(id.Name+"_bk"))
			}
		}
		r, err := fc.mblock(rest, lvl)
		if err != nil {
			return "", true, err
		}
		return sb.String() + r, true, nil
	}
	local := func() error {
		if _, seen := fc.locals[id.Name]; !seen || fc.m.ltype[id.Name] != "List Int" {
			return fmt.Errorf("%s is not a local slice", id.Name)
		}
		if fc.isParam(id.Name) {
			return fmt.Errorf("append / re-slice of parameter %s (its backing array belongs to the caller)", id.Name)
		}
		return nil
	}
	switch r := x.Rhs[0].(type) {
	case *ast.CallExpr:
		fid, ok := r.Fun.(*ast.Ident)
		if !ok {
			return "", false, nil
		}
		if _, isBuiltin := fc.p.TypesInfo.Uses[fid].(*types.Builtin); !isBuiltin {
			return "", false, nil
		}
		switch fid.Name {
		case "make":
			if lt, err := leanTypeM(fc.p.TypesInfo.TypeOf(r)); err != nil || lt != "List Int" {
				return "", false, nil
			}
			if len(r.Args) == 2 && !tracked {
				return "", false, nil // monadic.go's own `make([]T, n)`
			}
			if len(r.Args) != 2 && len(r.Args) != 3 {
				return "", false, nil
			}
			if _, isSlice := fc.p.TypesInfo.TypeOf(r).Underlying().(*types.Slice); !isSlice {
				return "", false, nil
			}
			n, err := fc.expr(r.Args[1])
			if err != nil {
				return "", true, err
			}
			needDm(fc.m.module)
			if len(r.Args) == 2 {
				return finish(fc.bind("Gzx.GoM.mk "+n), false)
			}
			c, err := fc.expr(r.Args[2])
			if err != nil {
				return "", true, err
			}
			if tracked {
				return finish(fc.bind(fmt.Sprintf("Gzx.GoM.mk3 %s %s", n, c)), true)
			}
			return finish(fc.bind(fmt.Sprintf("Gzx.GoM.mk3u %s %s", n, c)), false)
		case "append":
			if len(r.Args) != 2 {
				return fail("append with %d arguments", len(r.Args))
			}
			if a0, ok := r.Args[0].(*ast.Ident); !ok || a0.Name != id.Name || x.Tok != token.ASSIGN {
				return fail("append is supported only as `x = append(x, …)`")
			}
			if err := local(); err != nil {
				return "", true, err
			}
			var ys string
			var err error
			if r.Ellipsis != token.NoPos {
				ys, err = fc.lexpr(r.Args[1])
			} else {
				var v string
				v, err = fc.expr(r.Args[1])
				ys = "[" + v + "]"
			}
			if err != nil {
				return "", true, err
			}
			needDm(fc.m.module)
			if tracked {
				return finish(fc.bind(fmt.Sprintf("Gzx.GoM.appendT %s %s %s", fc.name(id.Name), fc.name(id.Name+"_bk"), ys)), true)
			}
			return finish(fmt.Sprintf("(%s ++ %s)", fc.name(id.Name), ys), false)
		}
	case *ast.SliceExpr:
		t := fc.p.TypesInfo.TypeOf(r.X)
		if _, isSlice := t.Underlying().(*types.Slice); !isSlice {
			return "", false, nil
		}
		if a0, ok := r.X.(*ast.Ident); !ok || a0.Name != id.Name || x.Tok != token.ASSIGN || r.Slice3 || !tracked {
			return fail("re-slicing is supported only as `x = x[a:b]` on a local slice")
		}
		if err := local(); err != nil {
			return "", true, err
		}
		cur, bk := fc.name(id.Name), fc.name(id.Name+"_bk")
		lo, hi := "0", "(Gzx.GoM.len "+cur+")"
		var err error
		if r.Low != nil {
			if lo, err = fc.expr(r.Low); err != nil {
				return "", true, err
			}
		}
		if r.High != nil {
			if hi, err = fc.expr(r.High); err != nil {
				return "", true, err
			}
		}
		needDm(fc.m.module)
		return finish(fc.bind(fmt.Sprintf("Gzx.GoM.reslice %s %s %s %s", cur, bk, lo, hi)), true)
	}
	return "", false, nil
}

// dmxAssignLL: two-level local lists (`[][]byte`, the byte-slice field of a flattened local slice of structs):
// `X := make([][]T, n)`, `X[k] = <slice>`, `X[j][i] = v`
func (fc *fnCtx) dmxAssignLL(x *ast.AssignStmt, rest []ast.Stmt, lvl int) (string, bool, error) {
	isLL := func(e ast.Expr) (string, bool) {
		id, ok := e.(*ast.Ident)
		if !ok {
			return "", false
		}
		if _, isLocal := fc.locals[id.Name]; !isLocal || fc.m.ltype[id.Name] != "List (List Int)" {
			return "", false
		}
		return id.Name, true
	}
	finish := func(name, val string) (string, bool, error) {
		var sb strings.Builder
		sb.WriteString(fc.flush(lvl))
		fc.declare(name, "List (List Int)")
		fmt.Fprintf(&sb, "%slet %s := %s\n", ind(lvl), fc.name(name), val)
		r, err := fc.mblock(rest, lvl)
		if err != nil {
			return "", true, err
		}
		return sb.String() + r, true, nil
	}
	if id, ok := x.Lhs[0].(*ast.Ident); ok && x.Tok == token.DEFINE {
		if call, ok := x.Rhs[0].(*ast.CallExpr); ok {
			if fid, ok := call.Fun.(*ast.Ident); ok && fid.Name == "make" && len(call.Args) == 2 {
				if t := fc.p.TypesInfo.TypeOf(call); t != nil {
					if sl, ok := t.Underlying().(*types.Slice); ok {
						if lt, err := leanTypeM(sl.Elem()); err == nil && lt == "List Int" {
							if _, isSl := sl.Elem().Underlying().(*types.Slice); isSl {
								n, err := fc.expr(call.Args[1])
								if err != nil {
									return "", true, err
								}
								needDm(fc.m.module)
								return finish(id.Name, fc.bind("Gzx.GoM.mkLL "+n))
							}
						}
					}
				}
			}
		}
		return "", false, nil
	}
	if x.Tok != token.ASSIGN {
		return "", false, nil
	}
	ix, ok := x.Lhs[0].(*ast.IndexExpr)
	if !ok {
		return "", false, nil
	}
	if name, ok := isLL(ix.X); ok { // X[k] = <slice>
		k, err := fc.expr(ix.Index)
		if err != nil {
			return "", true, err
		}
		v, err := fc.lexprOrMake(x.Rhs[0])
		if err != nil {
			return "", true, err
		}
		needDm(fc.m.module)
		return finish(name, fc.bind(fmt.Sprintf("Gzx.GoM.setIdxLL %s %s %s", fc.name(name), k, v)))
	}
	if ix2, ok := ix.X.(*ast.IndexExpr); ok { // X[j][i] = v
		if name, ok := isLL(ix2.X); ok {
			j, err := fc.expr(ix2.Index)
			if err != nil {
				return "", true, err
			}
			i, err := fc.expr(ix.Index)
			if err != nil {
				return "", true, err
			}
			v, err := fc.expr(x.Rhs[0])
			if err != nil {
				return "", true, err
			}
			needDm(fc.m.module)
			row := fc.bind(fmt.Sprintf("Gzx.GoM.idxL %s %s", fc.name(name), j))
			row2 := fc.bind(fmt.Sprintf("Gzx.GoM.setIdx %s %s %s", row, i, v))
			return finish(name, fc.bind(fmt.Sprintf("Gzx.GoM.setIdxLL %s %s %s", fc.name(name), j, row2)))
		}
	}
	return "", false, nil
}

// ---------- registration ----------

// dmxRegister (hook, end of genFuncM): makes the function callable from kernels translated later into the module
func (fc *fnCtx) dmxRegister(e entry, fd *ast.FuncDecl, nres int) {
	if !dmxOn() {
		return
	}

	if fc.flat().nestedUsed {
		// a kernel with nested-object parameters is not callable from other kernels (their call sites do not pass them)
		delete(methodCallees, e.module+"|"+e.pkg+"."+e.name)
		delete(callees, e.module+"|"+e.pkg+"."+e.name)
		return
	}
	if len(fc.m.outVars) != 0 || fc.ext().isInit {
		return
	}
	ci := dmxCallee{lean: e.lean, fuel: fc.m.fuelUsed, globals: fc.ext().globals, nres: nres, res: fc.m.resTypes}
	var fields []*ast.Field
	if fd.Recv != nil {
		fields = append(fields, fd.Recv.List...)
	}
	fields = append(fields, fd.Type.Params.List...)
	plainOnly := true
	for _, fl := range fields {
		t := fc.p.TypesInfo.TypeOf(fl.Type)
		for _, n := range fl.Names {
			if st, ok := fc.structs[n.Name]; ok {
				plainOnly = false
				pa := dmxParam{isStruct: true}
				for j := 0; j < st.NumFields(); j++ {
					if _, used := fc.fieldsUsed[n.Name+"_"+st.Field(j).Name()]; used {
						pa.fields = append(pa.fields, st.Field(j).Name())
					}
				}
				_, pa.isNil = fc.fieldsUsed[n.Name+"_isNil"]
				ci.params = append(ci.params, pa)
				continue
			}
			lt, err := leanTypeM(t)
			if err != nil {
				return
			}
			ci.params = append(ci.params, dmxParam{list: lt == "List Int"})
		}
	}
	if plainOnly && !ci.fuel && len(ci.globals) == 0 {
		return // monadic.go's own `callees` covers it
	}
	dmxCallees[e.module+"|"+e.pkg+"."+e.name] = ci
}

var _ = constant.Int
