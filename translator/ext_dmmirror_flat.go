// Object flattening (work package dmmirror, second part of the subset of ext_dmmirror.go): an AST pre-pass that turns
// the object graph a function walks into the flat integer / list locals the monadic target knows.
//
//   - NESTED STRUCTS of a struct parameter: a field of type *T / T (T a struct) of a struct parameter `v` is the pseudo
//     struct parameter `v_f` (its fields are the Lean parameters `v_f_g`, after the Go parameters); `v.f` and a plain
//     getter `v.getF()` of such a field are the identifier `v_f`; a local `x := v.f` that is never reassigned is an alias;
//   - SLICES OF STRUCTS with integer fields (`[]ECB`): one `List Int` per field (`v_f_count`, `v_f_dataCodewords`: parallel
//     lists, produced from ONE list of structs and therefore equally long — a hypothesis of every kernel theorem);
//     `for _, e := range v.f` iterates over the first field list with the synthesized key `e_i` and starts each iteration
//     with `e_g := v_f_g[e_i]` for the fields `g` the body reads (Go copies the element at the start of the iteration);
//   - a LOCAL slice of structs `r := make([]T, n)` whose fields are integers or byte slices (`[]DataBlock`): one local
//     per field (`r_numDataCodewords : List Int`, `r_codewords : List (List Int)`); `r[k].g` is `r_g[k]`; a result of
//     such a type is returned as the field lists (`nil`: empty lists).
//
// Synthesized identifiers get entries in go/types' Info maps so that the rest of the translator sees typed nodes.
package main

import (
	"fmt"
	"go/ast"
	"go/token"
	"go/types"

	"golang.org/x/tools/go/ast/astutil"
)

type flatPath struct {
	st     *types.Struct // struct behind the path (element struct for a slice of structs)
	slice  bool          // slice of structs
	local  bool          // a local slice of structs (mutable)
	fields []string      // slice of structs: translatable fields
	ftypes []types.Type
}

type flatState struct {
	paths      map[string]*flatPath
	vars       map[string]*types.Var // synthesized identifiers
	order      []string              // nested parameter locals in creation order: name
	ltype      map[string]string
	nestedUsed bool // the kernel takes nested locals as parameters
}

var flatStates = map[*fnCtx]*flatState{}

func (fc *fnCtx) flat() *flatState {
	if s, ok := flatStates[fc]; ok {
		return s
	}
	s := &flatState{paths: map[string]*flatPath{}, vars: map[string]*types.Var{}, ltype: map[string]string{}}
	flatStates[fc] = s
	return s
}

// synth: an identifier `name` of type t, known to go/types' Info maps
func (fc *fnCtx) synth(name string, t types.Type, def bool) *ast.Ident {
	fs := fc.flat()
	v, ok := fs.vars[name]
	if !ok {
		v = types.NewVar(token.NoPos, fc.p.Types, name, t)
		fs.vars[name] = v
	}
	id := &ast.Ident{Name: name}
	if def {
		fc.p.TypesInfo.Defs[id] = v
	} else {
		fc.p.TypesInfo.Uses[id] = v
	}
	fc.p.TypesInfo.Types[id] = types.TypeAndValue{Type: v.Type()}
	return id
}

func sliceOfStruct(t types.Type) (*types.Struct, bool) {
	sl, ok := t.Underlying().(*types.Slice)
	if !ok {
		return nil, false
	}
	st, ok := sl.Elem().Underlying().(*types.Struct)
	return st, ok
}

// addPath registers path `name` and (recursively) the paths below it
func (fc *fnCtx) addPath(name string, t types.Type, local bool, depth int) {
	fs := fc.flat()
	if depth > 4 {
		return
	}
	if est, ok := sliceOfStruct(t); ok {
		fp := &flatPath{st: est, slice: true, local: local}
		for j := 0; j < est.NumFields(); j++ {
			ft := est.Field(j).Type()
			lt, err := leanTypeM(ft)
			if err != nil || (lt != "Int" && !(local && lt == "List Int")) {
				return // not flattenable
			}
			fp.fields = append(fp.fields, est.Field(j).Name())
			fp.ftypes = append(fp.ftypes, ft)
		}
		if len(fp.fields) == 0 {
			return
		}
		fs.paths[name] = fp
		return
	}
	st := structOf(t)
	if st == nil {
		return
	}
	fs.paths[name] = &flatPath{st: st}
	for j := 0; j < st.NumFields(); j++ {
		f := st.Field(j)
		if structOf(f.Type()) != nil {
			fc.addPath(name+"_"+f.Name(), f.Type(), false, depth+1)
		} else if _, ok := sliceOfStruct(f.Type()); ok {
			fc.addPath(name+"_"+f.Name(), f.Type(), false, depth+1)
		}
	}
}

// getterField: `x.m()` where m is a plain getter -> the field it returns
func (fc *fnCtx) getterField(call *ast.CallExpr) (*ast.Ident, string, bool) {
	sel, ok := call.Fun.(*ast.SelectorExpr)
	if !ok || len(call.Args) != 0 {
		return nil, "", false
	}
	id, ok := sel.X.(*ast.Ident)
	if !ok {
		return nil, "", false
	}
	f, ok := trivialGetter(fc.p, sel)
	return id, f, ok
}

// dmxFlatten (hook, start of genFuncM): rewrites fd.Body in place
func (fc *fnCtx) dmxFlatten(fd *ast.FuncDecl) error {
	if !dmxOn() {
		return nil
	}

	fs := fc.flat()
	var fields []*ast.Field
	if fd.Recv != nil {
		fields = append(fields, fd.Recv.List...)
	}
	fields = append(fields, fd.Type.Params.List...)
	for _, fl := range fields {
		t := fc.p.TypesInfo.TypeOf(fl.Type)
		if _, err := leanTypeM(t); err == nil {
			continue
		}
		if structOf(t) == nil {
			continue
		}
		for _, n := range fl.Names {
			fc.addPath(n.Name, t, false, 0)
		}
	}
	var rerr error
	for iter := 0; iter < 12; iter++ {
		changed := false
		aliases := map[*types.Var]string{}
		// ---- paths: selectors, getters, element fields; local slices of structs; aliases ----
		astutil.Apply(fd.Body, nil, func(c *astutil.Cursor) bool {
			switch x := c.Node().(type) {
			case *ast.SelectorExpr:
				if id, ok := x.X.(*ast.Ident); ok {
					if p, ok := fs.paths[id.Name]; ok && !p.slice {
						if q, ok := fs.paths[id.Name+"_"+x.Sel.Name]; ok {
							_ = q
							c.Replace(fc.synth(id.Name+"_"+x.Sel.Name, fc.p.TypesInfo.TypeOf(x), false))
							changed = true
						}
					}
				}
				// r[k].g -> r_g[k]
				if ix, ok := x.X.(*ast.IndexExpr); ok {
					if id, ok := ix.X.(*ast.Ident); ok {
						if p, ok := fs.paths[id.Name]; ok && p.slice {
							for j, f := range p.fields {
								if f == x.Sel.Name {
									ne := &ast.IndexExpr{X: fc.synth(id.Name+"_"+f, types.NewSlice(p.ftypes[j]), false), Index: ix.Index}
									fc.p.TypesInfo.Types[ne] = types.TypeAndValue{Type: p.ftypes[j]}
									c.Replace(ne)
									changed = true
								}
							}
						}
					}
				}
			case *ast.CallExpr:
				if id, f, ok := fc.getterField(x); ok {
					if p, ok := fs.paths[id.Name]; ok && !p.slice {
						if _, ok := fs.paths[id.Name+"_"+f]; ok {
							c.Replace(fc.synth(id.Name+"_"+f, fc.p.TypesInfo.TypeOf(x), false))
							changed = true
						}
					}
				}
				// r[k].getG() -> r_g[k]
				if sel, ok := x.Fun.(*ast.SelectorExpr); ok && len(x.Args) == 0 {
					if ix, ok := sel.X.(*ast.IndexExpr); ok {
						if id, ok := ix.X.(*ast.Ident); ok {
							if p, ok := fs.paths[id.Name]; ok && p.slice {
								if f, ok := trivialGetter(fc.p, sel); ok {
									for j, g := range p.fields {
										if g == f {
											ne := &ast.IndexExpr{X: fc.synth(id.Name+"_"+g, types.NewSlice(p.ftypes[j]), false), Index: ix.Index}
											fc.p.TypesInfo.Types[ne] = types.TypeAndValue{Type: p.ftypes[j]}
											c.Replace(ne)
											changed = true
											return true
										}
									}
								}
							}
						}
					}
				}
				// len(r) of a slice of structs: the length of its first field list
				if fid, ok := x.Fun.(*ast.Ident); ok && fid.Name == "len" && len(x.Args) == 1 {
					if id, ok := x.Args[0].(*ast.Ident); ok {
						if p, ok := fs.paths[id.Name]; ok && p.slice {
							x.Args[0] = fc.synth(id.Name+"_"+p.fields[0], types.NewSlice(p.ftypes[0]), false)
							changed = true
						}
					}
				}
			case *ast.AssignStmt:
				if len(x.Lhs) == 1 && len(x.Rhs) == 1 && x.Tok == token.DEFINE {
					lhs, ok := x.Lhs[0].(*ast.Ident)
					if !ok {
						return true
					}
					// alias of a path
					if rid, ok := x.Rhs[0].(*ast.Ident); ok {
						if _, ok := fs.paths[rid.Name]; ok {
							if v, ok := fc.p.TypesInfo.Defs[lhs].(*types.Var); ok && v != nil {
								aliases[v] = rid.Name
								c.Replace(&ast.EmptyStmt{Semicolon: x.Pos()})
								changed = true
							}
						}
						return true
					}
					// r := make([]T, n)
					if call, ok := x.Rhs[0].(*ast.CallExpr); ok {
						if fid, ok := call.Fun.(*ast.Ident); ok && fid.Name == "make" && len(call.Args) == 2 {
							t := fc.p.TypesInfo.TypeOf(call)
							if t == nil {
								return true
							}
							if _, ok := sliceOfStruct(t); !ok {
								return true
							}
							if _, seen := fs.paths[lhs.Name]; seen {
								return true
							}
							fc.addPath(lhs.Name, t, true, 0)
							p, ok := fs.paths[lhs.Name]
							if !ok {
								rerr = fmt.Errorf("local slice of structs %s cannot be flattened", lhs.Name)
								return false
							}
							switch call.Args[1].(type) {
							case *ast.Ident, *ast.BasicLit:
							default:
								rerr = fmt.Errorf("length of the local slice of structs %s is not a plain operand", lhs.Name)
								return false
							}
							var stmts []ast.Stmt
							for j, f := range p.fields {
								st := types.NewSlice(p.ftypes[j])
								mk := &ast.Ident{Name: "make"}
								fc.p.TypesInfo.Uses[mk] = types.Universe.Lookup("make")
								te := &ast.Ident{Name: "_sliceType"}
								mc := &ast.CallExpr{Fun: mk, Args: []ast.Expr{te, call.Args[1]}}
								fc.p.TypesInfo.Types[mc] = types.TypeAndValue{Type: st}
								stmts = append(stmts, &ast.AssignStmt{Lhs: []ast.Expr{fc.synth(lhs.Name+"_"+f, st, true)}, Tok: token.DEFINE, TokPos: x.TokPos, Rhs: []ast.Expr{mc}})
							}
							c.Replace(stmts[0])
							for k := len(stmts) - 1; k >= 1; k-- {
								c.InsertAfter(stmts[k])
							}
							changed = true
						}
					}
				}
			}
			return rerr == nil
		})
		if rerr != nil {
			return rerr
		}
		// ---- substitute aliases ----
		if len(aliases) > 0 {
			bad := ""
			astutil.Apply(fd.Body, nil, func(c *astutil.Cursor) bool {
				if id, ok := c.Node().(*ast.Ident); ok {
					if v, ok := fc.p.TypesInfo.Uses[id].(*types.Var); ok {
						if pth, ok := aliases[v]; ok {
							if as, isAs := c.Parent().(*ast.AssignStmt); isAs {
								for _, l := range as.Lhs {
									if l == ast.Expr(id) {
										bad = id.Name
									}
								}
							}
							c.Replace(fc.synth(pth, v.Type(), false))
						}
					}
				}
				return true
			})
			if bad != "" {
				return fmt.Errorf("alias %s of an object is reassigned", bad)
			}
		}
		// ---- range over a slice of structs ----
		astutil.Apply(fd.Body, nil, func(c *astutil.Cursor) bool {
			rs, ok := c.Node().(*ast.RangeStmt)
			if !ok {
				return true
			}
			xid, ok := rs.X.(*ast.Ident)
			if !ok {
				return true
			}
			p, ok := fs.paths[xid.Name]
			if !ok || !p.slice {
				return true
			}
			if rs.Tok != token.DEFINE {
				rerr = fmt.Errorf("range over a slice of structs without :=")
				return false
			}
			var key *ast.Ident
			if k, ok := rs.Key.(*ast.Ident); ok && k.Name != "_" {
				key = k
			}
			val, _ := rs.Value.(*ast.Ident)
			if val != nil && val.Name == "_" {
				val = nil
			}
			if key == nil {
				base := "k"
				if val != nil {
					base = val.Name
				}
				key = fc.synth(base+"_i", types.Typ[types.Int], true)
			}
			rs.Key = key
			rs.Value = nil
			rs.X = fc.synth(xid.Name+"_"+p.fields[0], types.NewSlice(p.ftypes[0]), false)
			if val != nil {
				vobj := fc.p.TypesInfo.Defs[val]
				usedF := map[string]bool{}
				astutil.Apply(rs.Body, nil, func(c2 *astutil.Cursor) bool {
					switch y := c2.Node().(type) {
					case *ast.SelectorExpr:
						if id, ok := y.X.(*ast.Ident); ok && fc.p.TypesInfo.Uses[id] == vobj && vobj != nil {
							if _, isCall := c2.Parent().(*ast.CallExpr); isCall && c2.Name() == "Fun" {
								return true
							}
							usedF[y.Sel.Name] = true
							c2.Replace(fc.synth(val.Name+"_"+y.Sel.Name, types.Typ[types.Int], false))
						}
					case *ast.CallExpr:
						if id, f, ok := fc.getterField(y); ok && fc.p.TypesInfo.Uses[id] == vobj && vobj != nil {
							usedF[f] = true
							c2.Replace(fc.synth(val.Name+"_"+f, types.Typ[types.Int], false))
						}
					case *ast.Ident:
						if fc.p.TypesInfo.Uses[y] == vobj && vobj != nil {
							if sel, isSel := c2.Parent().(*ast.SelectorExpr); !isSel || sel.X != ast.Expr(y) {
								rerr = fmt.Errorf("element %s of a slice of structs is used as a whole", val.Name)
							}
						}
					}
					return true
				})
				var pre []ast.Stmt
				for j, f := range p.fields {
					if usedF[f] {
						ix := &ast.IndexExpr{X: fc.synth(xid.Name+"_"+f, types.NewSlice(p.ftypes[j]), false), Index: fc.synth(key.Name, types.Typ[types.Int], false)}
						fc.p.TypesInfo.Types[ix] = types.TypeAndValue{Type: p.ftypes[j]}
						pre = append(pre, &ast.AssignStmt{Lhs: []ast.Expr{fc.synth(val.Name+"_"+f, types.Typ[types.Int], true)}, Tok: token.DEFINE, Rhs: []ast.Expr{ix}})
						delete(usedF, f)
					}
				}
				if len(usedF) > 0 {
					rerr = fmt.Errorf("element %s: unknown field", val.Name)
				}
				rs.Body.List = append(pre, rs.Body.List...)
			}
			changed = true
			return rerr == nil
		})
		if rerr != nil {
			return rerr
		}
		if !changed {
			break
		}
	}
	return nil
}

// dmxFlatParams (hook, parameter setup of genFuncM): declares the locals of the nested paths of struct parameter `name`
func (fc *fnCtx) dmxFlatParams(name string) {
	if !dmxOn() {
		return
	}

	fs := fc.flat()
	var walk func(pn string)
	walk = func(pn string) {
		p, ok := fs.paths[pn]
		if !ok {
			return
		}
		if p.slice {
			for _, f := range p.fields {
				key := pn + "_" + f
				fc.declare(key, "List Int")
				fc.paramNames = append(fc.paramNames, key)
				fs.order = append(fs.order, key)
				fs.ltype[key] = "List Int"
			}
			return
		}
		if pn != name {
			fc.structs[pn] = p.st
			for j := 0; j < p.st.NumFields(); j++ {
				if flt, err := leanTypeM(p.st.Field(j).Type()); err == nil {
					fc.declare(pn+"_"+p.st.Field(j).Name(), flt)
					fs.order = append(fs.order, pn+"_"+p.st.Field(j).Name())
					fs.ltype[pn+"_"+p.st.Field(j).Name()] = flt
				}
			}
		}
		for j := 0; j < p.st.NumFields(); j++ {
			walk(pn + "_" + p.st.Field(j).Name())
		}
	}
	walk(name)
}

// dmxNestedParams (hook, parameter assembly of genFuncM): the nested locals the body uses, after the Go parameters.
// Nested object state is READ-ONLY in this subset: a function that writes it (directly or through a method of the nested
// object) is refused, because the written state would have to be returned through every caller.
func (fc *fnCtx) dmxNestedParams(fd *ast.FuncDecl, params []string) ([]string, error) {
	if !dmxOn() {
		return params, nil
	}

	fs := fc.flat()
	if len(fs.order) == 0 {
		return params, nil
	}
	used := map[string]bool{}
	ast.Inspect(fd.Body, func(n ast.Node) bool {
		if id, ok := n.(*ast.Ident); ok {
			used[id.Name] = true
		}
		return true
	})
	assigned, _ := assignedIn(fd.Body.List)
	for _, key := range fs.order {
		if assigned[key] {
			return nil, fmt.Errorf("write to nested object state %s (read-only in this subset)", key)
		}
		_, viaField := fc.fieldsUsed[key]
		if used[key] || viaField {
			params = append(params, fmt.Sprintf("(%s : %s)", key, fs.ltype[key]))
			fs.nestedUsed = true
		}
	}
	return params, nil
}

// dmxResultTypes (hook, result list of genFuncM): a result of type slice-of-structs is returned as its field lists
func (fc *fnCtx) dmxResultTypes(t types.Type) ([]string, bool) {
	if !dmxOn() {
		return nil, false
	}

	est, ok := sliceOfStruct(t)
	if !ok {
		return nil, false
	}
	var lts []string
	for j := 0; j < est.NumFields(); j++ {
		lt, err := leanTypeM(est.Field(j).Type())
		if err != nil {
			return nil, false
		}
		if lt == "List Int" {
			lt = "List (List Int)"
		} else if lt == "Int" {
			lt = "List Int"
		} else {
			return nil, false
		}
		lts = append(lts, lt)
	}
	return lts, len(lts) > 0
}

// dmxNoteResult (hook): remembers the Go result types
func (fc *fnCtx) dmxNoteResult(t types.Type, names int) {
	if !dmxOn() {
		return
	}

	if names == 0 {
		names = 1
	}
	for k := 0; k < names; k++ {
		fc.ext().resGo = append(fc.ext().resGo, t)
	}
}

// dmxReturnVals (hook, return statement): the value of a slice-of-structs result
func (fc *fnCtx) dmxReturnVals(ri int, r ast.Expr) ([]string, bool, error) {
	if !dmxOn() {
		return nil, false, nil
	}

	if fc.m == nil || fc.m.region {
		return nil, false, nil
	}
	t := fc.p.TypesInfo.TypeOf(r)
	id, isId := r.(*ast.Ident)
	if isId && id.Name == "nil" {
		if rg := fc.ext().resGo; ri < len(rg) {
			if est, ok := sliceOfStruct(rg[ri]); ok {
				if lts, ok := fc.dmxResultTypes(rg[ri]); ok {
					_ = est
					vals := make([]string, len(lts))
					for k := range vals {
						vals[k] = "[]"
					}
					return vals, true, nil
				}
			}
		}
		return nil, false, nil
	}
	if t == nil {
		return nil, false, nil
	}
	est, ok := sliceOfStruct(t)
	if !ok {
		return nil, false, nil
	}
	if !isId {
		return nil, true, fmt.Errorf("slice-of-structs result is not a local")
	}
	p, ok := fc.flat().paths[id.Name]
	if !ok || !p.slice {
		return nil, true, fmt.Errorf("slice-of-structs result %s is not a flattened local", id.Name)
	}
	_ = est
	var vals []string
	for _, f := range p.fields {
		key := id.Name + "_" + f
		if _, seen := fc.locals[key]; !seen {
			return nil, true, fmt.Errorf("%s is not in scope", key)
		}
		vals = append(vals, fc.name(key))
	}
	return vals, true, nil
}
