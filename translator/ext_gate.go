package main

import "strings"

// Three work packages extended the monadic subset concurrently (ext_k17k20.go, ext_dmmirror*.go, ext_k19.go) and two of
// them added overlapping features (lists of lists, callee tables) with different run-time names.  Each extension is
// active only for the generated modules it was written and PROVED for, so that every module is generated exactly as in
// the branch whose theorems are about it: curModule is set by main before each item.
var curModule string

func dmxOn() bool { return strings.HasPrefix(curModule, "K08b") }
func k17On() bool { return !strings.HasPrefix(curModule, "K08b") }
