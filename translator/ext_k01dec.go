// Work package k01dec — the QR decoder (qrcode/decoder) regenerated into module K01d.
//
// Everything here is a no-op unless the generated module's name starts with "K01d" (k01decOn).  monadic.go / main.go
// only call the hooks below (each marked `// wp k01dec`, placed after the hooks of the other packages).
//
//	leanTypeM    -> k01decType        OBJECT TYPES of the QR decoder as values:
//	                                    *gozxing.BitMatrix        -> `M`, an ABSTRACT matrix type; its methods are the fields of
//	                                                                 `ops : Gzx.GoM.MatOps M` (Get/GetWidth/GetHeight pure, Flip /
//	                                                                 SetRegion rebind the variable, NewSquareBitMatrix constructs):
//	                                                                 every emitted definition that mentions the type takes
//	                                                                 `{M : Type} (ops : Gzx.GoM.MatOps M)` first
//	                                    *decoder.FormatInformation-> `Option (Int × Int)` (nil = none; the fields otherwise)
//	                                    *decoder.Version          -> `Int`: a ROW HANDLE into the package-level table VERSIONS
//	                                                                 (nil = -1); only in functions that have no *Version parameter
//	                                                                 (there the existing struct-parameter rule applies)
//	mexpr        -> fc.k01decMexpr    `bits.OnesCount`, pure matrix methods, `NewSquareBitMatrix`, `x == nil` / `x != nil` of the object
//	                                  types, `C(args)` of a translated constructor as a nilable value, `VERSIONS[i]` (checked) as a handle
//	mblock       -> fc.k01decStmt     `m.Flip(..)` / `m.SetRegion(..)` as statements (the matrix variable / field is rebound)
//	mblock(ret)  -> fc.k01decReturn   `nil` of an object type; `return F(args)` of a translated callee with several results
//	mrange       -> fc.k01decRange    `for _, row := range <package-level constant [][]uint table>`
//	assignedIn3  -> k01decAssignedByCall  a mutating matrix method assigns its receiver variable
//	main         -> kind `funcq`      = `funcm` followed by the threading of `ops` through the emitted definitions
//
// Run-time library: lean/Gzx/GoMK01.lean.
package main

import (
	"fmt"
	"go/ast"
	"go/constant"
	"go/token"
	"go/types"
	"regexp"
	"strings"

	"golang.org/x/tools/go/packages"
)

func k01decOn() bool { return strings.HasPrefix(curModule, "K01d") }

// k01decStructMode: the function being translated has a *Version parameter (the struct-parameter rule applies to it)
var k01decStructMode bool

// k01decResTypes: the Go result types of the function being translated
var k01decResTypes []types.Type

const k01decHeader = "{M : Type} (ops : Gzx.GoM.MatOps M)"
const k01decFmtType = "Option (Int × Int)"

func k01decNeed(module string) {
	for _, i := range extraImports[module] {
		if i == "Gzx.GoMK01" {
			return
		}
	}
	extraImports[module] = append(extraImports[module], "Gzx.GoMK01")
}

// k01decNamed: t is *<pkg suffix>.<name>
func k01decNamed(t types.Type, pkgSuffix, name string) bool {
	if t == nil {
		return false
	}
	pt, ok := t.(*types.Pointer)
	if !ok {
		return false
	}
	nt, ok := pt.Elem().(*types.Named)
	if !ok || nt.Obj().Pkg() == nil {
		return false
	}
	return nt.Obj().Name() == name && relPkg(nt.Obj().Pkg().Path()) == pkgSuffix
}

func k01decIsMatrix(t types.Type) bool  { return k01decNamed(t, ".", "BitMatrix") }
func k01decIsFormat(t types.Type) bool  { return k01decNamed(t, "qrcode/decoder", "FormatInformation") }
func k01decIsVersion(t types.Type) bool { return k01decNamed(t, "qrcode/decoder", "Version") }

func k01decType(t types.Type) (string, bool) {
	if !k01decOn() {
		return "", false
	}
	switch {
	case k01decIsMatrix(t):
		return "M", true
	case k01decIsFormat(t):
		return k01decFmtType, true
	case k01decIsVersion(t) && !k01decStructMode:
		return "Int", true
	}
	return "", false
}

// matrix methods: Lean field, number of arguments, mutating, result kind
type k01decMethod struct {
	field   string
	nargs   int
	mutates bool
}

var k01decMatrixMethods = map[string]k01decMethod{
	"Get":       {"get", 2, false},
	"GetWidth":  {"width", 0, false},
	"GetHeight": {"height", 0, false},
	"Flip":      {"flip", 2, true},
	"SetRegion": {"setRegion", 4, true},
}

// k01decMatrixCall: `<matrix expr>.<Method>(args)`
func (fc *fnCtx) k01decMatrixCall(call *ast.CallExpr) (recv ast.Expr, m k01decMethod, ok bool) {
	sel, isSel := call.Fun.(*ast.SelectorExpr)
	if !isSel {
		return nil, m, false
	}
	if !k01decIsMatrix(fc.p.TypesInfo.TypeOf(sel.X)) {
		return nil, m, false
	}
	m, ok = k01decMatrixMethods[sel.Sel.Name]
	if !ok || m.nargs != len(call.Args) {
		return nil, m, false
	}
	return sel.X, m, true
}

func (fc *fnCtx) k01decArgs(args []ast.Expr) ([]string, error) {
	var out []string
	for _, a := range args {
		s, err := fc.expr(a)
		if err != nil {
			return nil, err
		}
		out = append(out, s)
	}
	return out, nil
}

// k01decPkgTable: ex is a package-level variable with a composite-literal initialiser that nothing assigns to
func (fc *fnCtx) k01decPkgTable(ex ast.Expr) (*types.Var, *ast.CompositeLit, *packages.Package, bool) {
	id, ok := ex.(*ast.Ident)
	if !ok {
		return nil, nil, nil, false
	}
	if _, local := fc.locals[id.Name]; local {
		return nil, nil, nil, false
	}
	obj, ok := fc.p.TypesInfo.Uses[id].(*types.Var)
	if !ok || obj.Pkg() == nil || obj.Parent() != obj.Pkg().Scope() {
		return nil, nil, nil, false
	}
	op := pkgs[obj.Pkg().Path()]
	if op == nil || assignedAnywhere(fc.p, obj) {
		return nil, nil, nil, false
	}
	init, ip := findVarInit(op, obj.Name())
	cl, ok := init.(*ast.CompositeLit)
	if !ok {
		return nil, nil, nil, false
	}
	return obj, cl, ip, true
}

func (fc *fnCtx) k01decMexpr(ex ast.Expr) (string, bool, error) {
	if !k01decOn() || fc.m == nil {
		return "", false, nil
	}
	fail := func(f string, a ...interface{}) (string, bool, error) { return "", true, fmt.Errorf(f, a...) }
	switch x := ex.(type) {
	case *ast.ParenExpr:
		return fc.k01decMexpr(x.X)
	case *ast.Ident:
		// a package-level scalar variable with a constant initialiser that nothing assigns to: its value
		if _, local := fc.locals[x.Name]; !local {
			if obj, ok := fc.p.TypesInfo.Uses[x].(*types.Var); ok && obj.Pkg() != nil && obj.Parent() == obj.Pkg().Scope() {
				if lt, err := leanType(obj.Type()); err == nil && lt == "Int" {
					if op := pkgs[obj.Pkg().Path()]; op != nil && !assignedAnywhere(fc.p, obj) {
						if init, ip := findVarInit(op, obj.Name()); init != nil {
							if tv, ok := ip.TypesInfo.Types[init]; ok && tv.Value != nil && tv.Value.Kind() == constant.Int {
								v := tv.Value.ExactString()
								if strings.HasPrefix(v, "-") {
									v = "(" + v + ")"
								}
								return v, true, nil
							}
						}
					}
				}
			}
		}
	case *ast.BinaryExpr:
		if x.Op == token.EQL || x.Op == token.NEQ {
			var other ast.Expr
			if id, ok := x.Y.(*ast.Ident); ok && id.Name == "nil" {
				other = x.X
			} else if id, ok := x.X.(*ast.Ident); ok && id.Name == "nil" {
				other = x.Y
			}
			if other != nil {
				t := fc.p.TypesInfo.TypeOf(other)
				lt, ok := k01decType(t)
				if !ok {
					return "", false, nil
				}
				if id, isId := other.(*ast.Ident); isId {
					if _, isS := fc.structs[id.Name]; isS {
						return "", false, nil // a struct parameter: the `x_isNil` rule
					}
				}
				v, err := fc.expr(other)
				if err != nil {
					return "", true, err
				}
				var isNil string
				switch lt {
				case k01decFmtType:
					isNil = "(" + v + ").isNone"
				case "Int":
					isNil = "(" + v + " == (-1))"
				default:
					return fail("nil test of a matrix")
				}
				if x.Op == token.EQL {
					return isNil, true, nil
				}
				return "(!" + isNil + ")", true, nil
			}
		}
	case *ast.UnaryExpr:
		// &FormatInformation{a, b}: `some (a, b)`
		if cl, ok := x.X.(*ast.CompositeLit); ok && x.Op == token.AND && k01decIsFormat(fc.p.TypesInfo.TypeOf(x)) {
			vals, err := fc.structValue(structOf(fc.p.TypesInfo.TypeOf(x)), cl)
			if err != nil {
				return "", true, err
			}
			return "(some (" + strings.Join(vals, ", ") + "))", true, nil
		}
	case *ast.IndexExpr:
		// VERSIONS[i]: a row handle, bounds-checked against the length of the table
		if k01decIsVersion(fc.p.TypesInfo.TypeOf(x)) && !k01decStructMode {
			_, cl, _, ok := fc.k01decPkgTable(x.X)
			if !ok {
				return fail("index into a *Version slice that is not a constant package-level table")
			}
			i, err := fc.expr(x.Index)
			if err != nil {
				return "", true, err
			}
			k01decNeed(fc.m.module)
			return fc.bind(fmt.Sprintf("Gzx.GoM.rowIdx %d %s", len(cl.Elts), i)), true, nil
		}
	case *ast.CallExpr:
		// h.M(args) with h a *Version row handle and M a translated method of Version: the fields M reads are looked up
		// in the columns of the package-level table
		if sel, ok := x.Fun.(*ast.SelectorExpr); ok && !k01decStructMode && k01decIsVersion(fc.p.TypesInfo.TypeOf(sel.X)) {
			if fn, ok := fc.p.TypesInfo.Uses[sel.Sel].(*types.Func); ok && fn.Pkg() != nil {
				mi, ok := methodCallees[fc.m.module+"|"+relPkg(fn.Pkg().Path())+".Version."+fn.Name()]
				if !ok || mi.nplain != len(x.Args) || len(mi.outs) != 0 || mi.nres != 1 || mi.fuel {
					return fail("method %s of a *Version handle is not a translated pure method", fn.Name())
				}
				h, err := fc.expr(sel.X)
				if err != nil {
					return "", true, err
				}
				parts := []string{mi.lean}
				for _, f := range mi.fields {
					col, lt, err := fc.k01decVersionColumn(f)
					if err != nil {
						return "", true, err
					}
					if lt == "Int" {
						parts = append(parts, fc.bind(fmt.Sprintf("Gzx.GoM.idx %s %s", col, h)))
					} else {
						needExt(fc.m.module)
						parts = append(parts, fc.bind(fmt.Sprintf("Gzx.GoM.idxRow %s %s", col, h)))
					}
				}
				as, err := fc.k01decArgs(x.Args)
				if err != nil {
					return "", true, err
				}
				return fc.bind(strings.Join(append(parts, as...), " ")), true, nil
			}
		}
		if recv, m, ok := fc.k01decMatrixCall(x); ok {
			if m.mutates {
				return fail("mutating matrix method %s in an expression", m.field)
			}
			r, err := fc.expr(recv)
			if err != nil {
				return "", true, err
			}
			as, err := fc.k01decArgs(x.Args)
			if err != nil {
				return "", true, err
			}
			k01decNeed(fc.m.module)
			return "(ops." + m.field + " " + strings.Join(append([]string{r}, as...), " ") + ")", true, nil
		}
		if sel, ok := x.Fun.(*ast.SelectorExpr); ok {
			if pk, ok := sel.X.(*ast.Ident); ok {
				if pn, ok := fc.p.TypesInfo.Uses[pk].(*types.PkgName); ok {
					if pn.Imported().Path() == "math/bits" && sel.Sel.Name == "OnesCount" && len(x.Args) == 1 {
						a, err := fc.expr(x.Args[0])
						if err != nil {
							return "", true, err
						}
						k01decNeed(fc.m.module)
						return "(Gzx.GoM.onesCount64 " + a + ")", true, nil
					}
					if pn.Imported().Path() == modPath && sel.Sel.Name == "NewSquareBitMatrix" && len(x.Args) == 1 {
						a, err := fc.expr(x.Args[0])
						if err != nil {
							return "", true, err
						}
						k01decNeed(fc.m.module)
						return fc.bind("ops.newSquare " + a), true, nil
					}
				}
			}
		}
		// C(args) with C a translated constructor of a nilable object type: `some (fields)`
		if id, ok := x.Fun.(*ast.Ident); ok && k01decIsFormat(fc.p.TypesInfo.TypeOf(x)) {
			if fn, ok := fc.p.TypesInfo.Uses[id].(*types.Func); ok && fn.Pkg() != nil {
				if ci, ok := ctorCallees[fc.m.module+"|"+relPkg(fn.Pkg().Path())+"."+fn.Name()]; ok && ci.nplain == len(x.Args) {
					as, err := fc.k01decArgs(x.Args)
					if err != nil {
						return "", true, err
					}
					t := fc.bind(strings.Join(append([]string{ci.lean}, as...), " "))
					return "(some " + t + ")", true, nil
				}
			}
		}
	}
	return "", false, nil
}

// k01decVersionColumn: the column of field f of the package-level table VERSIONS ([]*Version built by NewVersion calls):
// f must be initialised by the constructor directly from one of its parameters
func (fc *fnCtx) k01decVersionColumn(f string) (string, string, error) {
	op := pkgs[modPath+"/qrcode/decoder"]
	if op == nil {
		return "", "", fmt.Errorf("package qrcode/decoder not loaded")
	}
	obj, _ := op.Types.Scope().Lookup("VERSIONS").(*types.Var)
	if obj == nil || assignedAnywhere(fc.p, obj) {
		return "", "", fmt.Errorf("VERSIONS is not a constant table")
	}
	init, ip := findVarInit(op, "VERSIONS")
	cl, ok := init.(*ast.CompositeLit)
	if !ok {
		return "", "", fmt.Errorf("VERSIONS is not a composite literal")
	}
	ctor := findFunc(op, "NewVersion")
	if ctor == nil || ctor.Body == nil || len(ctor.Body.List) == 0 {
		return "", "", fmt.Errorf("NewVersion not found")
	}
	rs, ok := ctor.Body.List[len(ctor.Body.List)-1].(*ast.ReturnStmt)
	if !ok || len(rs.Results) != 1 {
		return "", "", fmt.Errorf("NewVersion does not end in a return")
	}
	var lit *ast.CompositeLit
	if u, ok := rs.Results[0].(*ast.UnaryExpr); ok && u.Op == token.AND {
		lit, _ = u.X.(*ast.CompositeLit)
	}
	if lit == nil {
		return "", "", fmt.Errorf("NewVersion does not return a composite literal")
	}
	st := structOf(op.TypesInfo.TypeOf(rs.Results[0]))
	fidx, flt := -1, ""
	for j := 0; j < st.NumFields(); j++ {
		if st.Field(j).Name() == f {
			fidx = j
			lt, err := leanTypeM(st.Field(j).Type())
			if err != nil {
				return "", "", err
			}
			flt = lt
		}
	}
	if fidx < 0 {
		return "", "", fmt.Errorf("Version has no field %s", f)
	}
	var src ast.Expr
	for i, el := range lit.Elts {
		if kv, ok := el.(*ast.KeyValueExpr); ok {
			if id, ok := kv.Key.(*ast.Ident); ok && id.Name == f {
				src = kv.Value
			}
		} else if i == fidx {
			src = el
		}
	}
	sid, ok := src.(*ast.Ident)
	if !ok {
		return "", "", fmt.Errorf("field %s of NewVersion is not a parameter", f)
	}
	// the parameter must not be assigned in the constructor
	asg, _ := assignedIn(ctor.Body.List)
	if asg[sid.Name] {
		return "", "", fmt.Errorf("NewVersion assigns its parameter %s", sid.Name)
	}
	pidx, k := -1, 0
	for _, fl := range ctor.Type.Params.List {
		for _, n := range fl.Names {
			if n.Name == sid.Name {
				if _, variadic := fl.Type.(*ast.Ellipsis); variadic {
					return "", "", fmt.Errorf("field %s comes from the variadic parameter", f)
				}
				pidx = k
			}
			k++
		}
	}
	if pidx < 0 {
		return "", "", fmt.Errorf("field %s of NewVersion is not a parameter", f)
	}
	ln := "tbl_VERSIONS_" + f
	if fc.m.tableSeen[ln] || moduleTables[fc.m.module+"|"+ln] {
		return ln, flt, nil
	}
	var cells []string
	for _, el := range cl.Elts {
		call, ok := el.(*ast.CallExpr)
		if !ok || len(call.Args) <= pidx {
			return "", "", fmt.Errorf("VERSIONS element is not a NewVersion call")
		}
		if id, ok := call.Fun.(*ast.Ident); !ok || id.Name != "NewVersion" {
			return "", "", fmt.Errorf("VERSIONS element is not a NewVersion call")
		}
		a := call.Args[pidx]
		if flt == "Int" {
			tv, ok := ip.TypesInfo.Types[a]
			if !ok || tv.Value == nil || tv.Value.Kind() != constant.Int {
				return "", "", fmt.Errorf("VERSIONS: non-constant %s", f)
			}
			v := tv.Value.ExactString()
			if strings.HasPrefix(v, "-") {
				v = "(" + v + ")"
			}
			cells = append(cells, v)
		} else {
			vals, ok := fc.constList(ip, a, 0)
			if !ok {
				return "", "", fmt.Errorf("VERSIONS: non-constant %s", f)
			}
			cells = append(cells, intLitList(vals))
		}
	}
	fc.m.tableSeen[ln] = true
	ty := "List Int"
	if flt != "Int" {
		ty = "List (List Int)"
	}
	fc.m.tables = append(fc.m.tables, fmt.Sprintf("/-- column %s of the package-level table VERSIONS (inlined) -/\ndef %s : %s := [%s]\n", f, ln, ty, strings.Join(cells, ", ")))
	return ln, flt, nil
}

// k01decHasChecked: the expression contains a call (other than a conversion / len) or an index read
func (fc *fnCtx) k01decHasChecked(e ast.Expr) bool {
	found := false
	ast.Inspect(e, func(n ast.Node) bool {
		switch x := n.(type) {
		case *ast.IndexExpr:
			found = true
		case *ast.CallExpr:
			if tv, ok := fc.p.TypesInfo.Types[x.Fun]; ok && tv.IsType() {
				return true
			}
			if id, ok := x.Fun.(*ast.Ident); ok && id.Name == "len" {
				return true
			}
			found = true
		}
		return !found
	})
	return found
}

func k01decSplitAnd(e ast.Expr) []ast.Expr {
	if p, ok := e.(*ast.ParenExpr); ok {
		return k01decSplitAnd(p.X)
	}
	if b, ok := e.(*ast.BinaryExpr); ok && b.Op == token.LAND {
		return append(k01decSplitAnd(b.X), k01decSplitAnd(b.Y)...)
	}
	return []ast.Expr{e}
}

func k01decSplitOr(e ast.Expr) []ast.Expr {
	if p, ok := e.(*ast.ParenExpr); ok {
		return k01decSplitOr(p.X)
	}
	if b, ok := e.(*ast.BinaryExpr); ok && b.Op == token.LOR {
		return append(k01decSplitOr(b.X), k01decSplitOr(b.Y)...)
	}
	return []ast.Expr{e}
}

// k01decStmt: mutating matrix methods in statement position; `if a || f(x) { …; return }` as `if a {…}; if f(x) {…}`
func (fc *fnCtx) k01decStmt(s ast.Stmt, rest []ast.Stmt, lvl int) (string, bool, error) {
	if !k01decOn() || fc.m == nil {
		return "", false, nil
	}
	if is, ok := s.(*ast.IfStmt); ok && is.Init == nil && is.Else == nil && len(is.Body.List) > 0 {
		if parts := k01decSplitAnd(is.Cond); len(parts) > 1 {
			checked := false
			for _, p := range parts[1:] {
				if fc.k01decHasChecked(p) {
					checked = true
				}
			}
			if checked {
				// `if a && f(x) { S }` without else = `if a { if f(x) { S } }` (the conjuncts are evaluated left to right)
				inner := is.Body
				for k := len(parts) - 1; k >= 1; k-- {
					inner = &ast.BlockStmt{List: []ast.Stmt{&ast.IfStmt{If: is.If, Cond: parts[k], Body: inner}}}
				}
				r, err := fc.mblock(append([]ast.Stmt{&ast.IfStmt{If: is.If, Cond: parts[0], Body: inner}}, rest...), lvl)
				return r, true, err
			}
		}
		if _, isRet := is.Body.List[len(is.Body.List)-1].(*ast.ReturnStmt); isRet {
			parts := k01decSplitOr(is.Cond)
			checked := false
			for _, p := range parts[1:] {
				if fc.k01decHasChecked(p) {
					checked = true
				}
			}
			if len(parts) > 1 && checked {
				// Go evaluates the disjuncts left to right and stops at the first true one; the body ends in a return
				var seq []ast.Stmt
				for _, p := range parts {
					seq = append(seq, &ast.IfStmt{If: is.If, Cond: p, Body: is.Body})
				}
				r, err := fc.mblock(append(seq, rest...), lvl)
				return r, true, err
			}
		}
		return "", false, nil
	}
	es, ok := s.(*ast.ExprStmt)
	if !ok {
		return "", false, nil
	}
	call, ok := es.X.(*ast.CallExpr)
	if !ok {
		return "", false, nil
	}
	recv, m, ok := fc.k01decMatrixCall(call)
	if !ok {
		return "", false, nil
	}
	if !m.mutates {
		return "", true, fmt.Errorf("pure matrix method %s as a statement", m.field)
	}
	key, ok := fc.lvalueKey(recv)
	if !ok {
		return "", true, fmt.Errorf("matrix receiver is not a local / field")
	}
	if _, seen := fc.locals[key]; !seen {
		return "", true, fmt.Errorf("free matrix %s", key)
	}
	as, err := fc.k01decArgs(call.Args)
	if err != nil {
		return "", true, err
	}
	k01decNeed(fc.m.module)
	t := fc.bind("ops." + m.field + " " + strings.Join(append([]string{fc.name(key)}, as...), " "))
	var sb strings.Builder
	sb.WriteString(fc.flush(lvl))
	nn := fc.bump(key)
	if m.field == "setRegion" { // (matrix, error): the error is dropped by the statement
		fmt.Fprintf(&sb, "%slet %s := %s.1\n", ind(lvl), nn, t)
	} else {
		fmt.Fprintf(&sb, "%slet %s := %s\n", ind(lvl), nn, t)
	}
	r, err := fc.mblock(rest, lvl)
	if err != nil {
		return "", true, err
	}
	return sb.String() + r, true, nil
}

// k01decAssignedByCall: a mutating matrix method assigns its receiver variable / field
func k01decAssignedByCall(call *ast.CallExpr, assigned, whole map[string]bool) {
	if !k01decOn() || curFC == nil || curFC.m == nil {
		return
	}
	recv, m, ok := curFC.k01decMatrixCall(call)
	if !ok || !m.mutates {
		return
	}
	if name, _ := lvalName(recv); name != "" {
		assigned[name] = true
		whole[name] = true
	}
}

// k01decReturn: the values of result expression r at position ri
func (fc *fnCtx) k01decReturn(x *ast.ReturnStmt, ri int, r ast.Expr) ([]string, bool, error) {
	if !k01decOn() || fc.m == nil {
		return nil, false, nil
	}
	t := fc.p.TypesInfo.TypeOf(r)
	// return F(args) of a translated callee with several results
	if tup, ok := t.(*types.Tuple); ok && len(x.Results) == 1 {
		call, ok := r.(*ast.CallExpr)
		if !ok {
			return nil, false, nil
		}
		v, err := fc.expr(call)
		if err != nil {
			return nil, true, err
		}
		var vals []string
		for i := 0; i < tup.Len(); i++ {
			pr := v + strings.Repeat(".2", i)
			if i < tup.Len()-1 {
				pr += ".1"
			}
			vals = append(vals, pr)
		}
		return vals, true, nil
	}
	if id, ok := r.(*ast.Ident); ok && id.Name == "nil" && ri < len(k01decResTypes) {
		if lt, ok := k01decType(k01decResTypes[ri]); ok {
			switch lt {
			case "M":
				k01decNeed(fc.m.module)
				return []string{"ops.nilM"}, true, nil
			case k01decFmtType:
				return []string{"none"}, true, nil
			case "Int":
				return []string{"(-1)"}, true, nil
			}
		}
		return nil, false, nil
	}
	if _, ok := k01decType(t); ok {
		v, err := fc.expr(r)
		if err != nil {
			return nil, true, err
		}
		return []string{v}, true, nil
	}
	return nil, false, nil
}

// k01decRange: `for i, row := range T` over a package-level constant table of integer rows
func (fc *fnCtx) k01decRange(x *ast.RangeStmt, rest []ast.Stmt, lvl int) (string, bool, error) {
	if !k01decOn() || fc.m == nil || x.Tok != token.DEFINE {
		return "", false, nil
	}
	t := fc.p.TypesInfo.TypeOf(x.X)
	sl, ok := t.Underlying().(*types.Slice)
	if !ok {
		return "", false, nil
	}
	if lt, err := leanTypeM(sl.Elem()); err != nil || lt != "List Int" {
		return "", false, nil
	}
	obj, cl, ip, ok := fc.k01decPkgTable(x.X)
	if !ok {
		return "", false, nil
	}
	var rows []string
	for _, el := range cl.Elts {
		vals, ok := fc.constList(ip, el, 0)
		if !ok {
			return "", true, fmt.Errorf("row of %s is not constant", obj.Name())
		}
		rows = append(rows, intLitList(vals))
	}
	ln := "tbl_" + obj.Name()
	if !fc.m.tableSeen[ln] && !moduleTables[fc.m.module+"|"+ln] {
		fc.m.tableSeen[ln] = true
		fc.m.tables = append(fc.m.tables, fmt.Sprintf("/-- package-level table %s (inlined) -/\ndef %s : List (List Int) := [%s]\n", obj.Name(), ln, strings.Join(rows, ", ")))
	}
	needExt(fc.m.module)
	ivar := ""
	if id, ok := x.Key.(*ast.Ident); ok && id.Name != "_" {
		ivar = id.Name
		if _, seen := fc.locals[ivar]; seen {
			return "", true, fmt.Errorf("loop variable shadows %s", ivar)
		}
	}
	var header func() (string, error)
	if id, ok := x.Value.(*ast.Ident); ok && id.Name != "_" {
		if _, seen := fc.locals[id.Name]; seen {
			return "", true, fmt.Errorf("loop variable shadows %s", id.Name)
		}
		header = func() (string, error) {
			iname := "i"
			if ivar != "" {
				iname = fc.name(ivar)
			}
			fc.declare(id.Name, "List Int")
			return fmt.Sprintf("  Gzx.GoM.tryC (Gzx.GoM.idxRow %s %s) fun %s =>\n", ln, iname, fc.name(id.Name)), nil
		}
	}
	trip := fmt.Sprintf("%d", len(cl.Elts))
	s, err := fc.loopCore(x.Body, nil, ivar, header, "1", trip, "0", rest, lvl)
	return s, true, err
}

var k01decBodyRe = regexp.MustCompile(`\b([A-Za-z_][A-Za-z0-9_]*_body[0-9]+)\b`)

func k01decHasVersionParam(p *packages.Package, fd *ast.FuncDecl) bool {
	var fields []*ast.Field
	if fd.Recv != nil {
		fields = append(fields, fd.Recv.List...)
	}
	fields = append(fields, fd.Type.Params.List...)
	for _, fl := range fields {
		if k01decIsVersion(p.TypesInfo.TypeOf(fl.Type)) {
			return true
		}
	}
	return false
}

// k01decGenFunc: kind `funcq` = `funcm` + the abstract matrix operations threaded through the emitted definitions
func k01decGenFunc(p *packages.Package, e entry) (string, error) {
	if !k01decOn() {
		return "", fmt.Errorf("kind funcq outside module K01d")
	}
	fd := findFunc(p, e.name)
	if fd == nil || fd.Body == nil {
		return "", fmt.Errorf("function not found")
	}
	k01decStructMode = k01decHasVersionParam(p, fd)
	k01decResTypes = nil
	if fd.Type.Results != nil {
		for _, fl := range fd.Type.Results.List {
			n := len(fl.Names)
			if n == 0 {
				n = 1
			}
			for i := 0; i < n; i++ {
				k01decResTypes = append(k01decResTypes, p.TypesInfo.TypeOf(fl.Type))
			}
		}
	}
	defer func() { k01decStructMode = false; k01decResTypes = nil }()
	text, err := genFuncM(p, e)
	if err != nil {
		return "", err
	}
	if k01decStructMode && fd.Recv != nil {
		// a method of Version: callers reach it through a struct parameter (methodCallees) or through a row handle
		// (k01decMexpr); the k17k20 call mechanism would claim the handle call and refuse it
		delete(extCallees, e.module+"|"+e.pkg+"."+e.name)
	}
	if !strings.Contains(text, "ops.") && !strings.Contains(text, " ops ") {
		return text, nil
	}
	text = k01decBodyRe.ReplaceAllString(text, "$1 ops")
	text = regexp.MustCompile(`(?m)^def ([A-Za-z_][A-Za-z0-9_]*_body[0-9]+) ops `).ReplaceAllString(text, "def $1 "+k01decHeader+" ")
	text = strings.Replace(text, "\ndef "+e.lean+" ", "\ndef "+e.lean+" "+k01decHeader+" ", 1)
	text = strings.ReplaceAll(text, "body of loop", "body of loop") // comments keep their text
	key := e.module + "|" + e.pkg + "." + e.name
	if ci, ok := callees[key]; ok && !strings.HasSuffix(ci.lean, " ops") {
		ci.lean += " ops"
		callees[key] = ci
	}
	if ci, ok := ctorCallees[key]; ok && !strings.HasSuffix(ci.lean, " ops") {
		ci.lean += " ops"
		ctorCallees[key] = ci
	}
	if mi, ok := methodCallees[key]; ok && !strings.HasSuffix(mi.lean, " ops") {
		mi.lean += " ops"
		methodCallees[key] = mi
	}
	return text, nil
}

var _ = constant.MakeInt64
