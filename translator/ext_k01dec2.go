// Work package k01dec2 — further kernels of the QR decoder (module K01de: the bit-stream parser over a BitSource state).
//
// Everything here is a no-op unless the generated module's name starts with "K01de" (k01dec2On).  The module name keeps the
// prefix "K01d" on purpose: the object types and the `a || f(x)` splitting of wp k01dec (ext_k01dec.go, gated on "K01d") apply
// to these kernels too.  monadic.go only calls the hook below (marked `// wp k01dec2`, after the hooks of the other packages).
//
//	main      -> kind `regionq`         = `region` + `ops : MatOps M` threaded through the emitted definitions
//	genRegion -> fc.k01dec2RegionFuel   a region that contains a `for cond` loop or calls a fuelled method takes `(fuel : Nat)`
//	mblock -> fc.k01dec2Stmt   `v, e := recv.M(args)` / `v, _ = recv.M(args)` / `recv.M(args)` with M a translated method of
//	                           a struct parameter that WRITES its receiver (e.g. `bits.ReadBits(n)`: BitSource.byteOffset /
//	                           bitOffset) and/or has several results: the call is bound once, the Go results are assigned to
//	                           the left-hand sides, the written receiver fields are rebound (`bits_byteOffset_1 := t.2.2.1` …).
package main

import (
	"fmt"
	"go/ast"
	"go/token"
	"go/types"
	"regexp"
	"strings"

	"golang.org/x/tools/go/packages"
)

func k01dec2On() bool { return strings.HasPrefix(curModule, "K01de") }

func (fc *fnCtx) k01dec2Stmt(s ast.Stmt, rest []ast.Stmt, lvl int) (string, bool, error) {
	if !k01dec2On() || fc.m == nil {
		return "", false, nil
	}
	fc.k01dec2Accumulators(append([]ast.Stmt{s}, rest...))
	if is, ok := s.(*ast.IfStmt); ok && is.Init == nil && is.Else != nil {
		// `if a && f(x) { S } else { T }` with a checked operation in f(x) = `if a { if f(x) { S } else { T } } else { T }`
		// (the conjuncts are evaluated left to right; T is duplicated, which is sound for any T)
		if parts := k01decSplitAnd(is.Cond); len(parts) > 1 {
			checked := false
			for _, p := range parts[1:] {
				if fc.k01decHasChecked(p) {
					checked = true
				}
			}
			if checked {
				var inner ast.Stmt = &ast.IfStmt{If: is.If, Cond: parts[len(parts)-1], Body: is.Body, Else: is.Else}
				for k := len(parts) - 2; k >= 0; k-- {
					inner = &ast.IfStmt{If: is.If, Cond: parts[k], Body: &ast.BlockStmt{List: []ast.Stmt{inner}}, Else: is.Else}
				}
				r, err := fc.mblock(append([]ast.Stmt{inner}, rest...), lvl)
				return r, true, err
			}
		}
		return "", false, nil
	}
	as, ok := s.(*ast.AssignStmt)
	if !ok || len(as.Rhs) != 1 {
		return "", false, nil
	}
	if id, isId := as.Rhs[0].(*ast.Ident); isId && id.Name == "nil" && as.Tok == token.ASSIGN && len(as.Lhs) == 1 {
		// `x.f = nil` for a field of one of the decoder's object types: the nil value of its representation
		if sel, isSel := as.Lhs[0].(*ast.SelectorExpr); isSel {
			if key, lt, okf := fc.fieldKey(sel); okf {
				nilv := ""
				switch lt {
				case "Int":
					if k01decIsVersion(fc.p.TypesInfo.TypeOf(sel)) {
						nilv = "(-1)"
					}
				case k01decFmtType:
					nilv = "none"
				}
				if nilv != "" {
					if _, seen := fc.locals[key]; !seen {
						return "", true, fmt.Errorf("assignment to untranslated field %s", key)
					}
					var sb strings.Builder
					sb.WriteString(fc.flush(lvl))
					nn := fc.bump(key)
					fmt.Fprintf(&sb, "%slet %s := %s\n", ind(lvl), nn, nilv)
					r, err := fc.mblock(rest, lvl)
					if err != nil {
						return "", true, err
					}
					return sb.String() + r, true, nil
				}
			}
		}
		return "", false, nil
	}
	call, ok := as.Rhs[0].(*ast.CallExpr)
	if !ok {
		return "", false, nil
	}
	if text, handled, err := fc.k01dec2Append(as, call, rest, lvl); handled {
		return text, true, err
	}
	recv, mi, ok := fc.methodCallee(call)
	if !ok {
		return "", false, nil
	}
	if len(mi.outs) == 0 && len(as.Lhs) == 1 {
		return "", false, nil // a pure single-result method: the base translation
	}
	if as.Tok != token.DEFINE && as.Tok != token.ASSIGN {
		return "", true, fmt.Errorf("operator assignment from a method call")
	}
	if len(as.Lhs) != mi.nres {
		return "", true, fmt.Errorf("call of %s: %d results expected", mi.lean, mi.nres)
	}
	text, err := fc.methodCallText(recv, mi, call)
	if err != nil {
		return "", true, err
	}
	t := fc.bind(text)
	var sb strings.Builder
	sb.WriteString(fc.flush(lvl))
	total := mi.nres + len(mi.outs)
	pr := func(k int) string {
		if total <= 1 {
			return t
		}
		p := t + strings.Repeat(".2", k)
		if k < total-1 {
			p += ".1"
		}
		return p
	}
	for k, l := range as.Lhs {
		id, ok := l.(*ast.Ident)
		if !ok {
			return "", true, fmt.Errorf("method call result assigned to a non-local")
		}
		if id.Name == "_" {
			continue
		}
		var ty types.Type
		if obj := fc.p.TypesInfo.Defs[id]; obj != nil {
			ty = obj.Type()
		} else if obj := fc.p.TypesInfo.Uses[id]; obj != nil {
			ty = obj.Type()
		}
		lt, err := leanTypeM(ty)
		if err != nil {
			if ty != nil && isErrorType(ty) {
				lt = "Bool"
			} else {
				return "", true, err
			}
		}
		if as.Tok == token.DEFINE {
			fc.declare(id.Name, lt)
			fmt.Fprintf(&sb, "%slet %s := %s\n", ind(lvl), fc.name(id.Name), pr(k))
		} else {
			if _, seen := fc.locals[id.Name]; !seen {
				return "", true, fmt.Errorf("assignment to free identifier %s", id.Name)
			}
			nn := fc.bump(id.Name)
			fmt.Fprintf(&sb, "%slet %s := %s\n", ind(lvl), nn, pr(k))
		}
	}
	for k, f := range mi.outs {
		key := recv + "_" + f
		if _, seen := fc.locals[key]; !seen {
			return "", true, fmt.Errorf("method %s writes %s, which is not a translated field", mi.lean, key)
		}
		nn := fc.bump(key)
		fmt.Fprintf(&sb, "%slet %s := %s\n", ind(lvl), nn, pr(mi.nres+k))
	}
	r, err := fc.mblock(rest, lvl)
	if err != nil {
		return "", true, err
	}
	return sb.String() + r, true, nil
}

// k01dec2Accumulators: a `[]byte` parameter that the function extends with `x = append(x, …)` and returns is an ACCUMULATOR
// VALUE (the caller continues with the returned slice and never looks at the old one): it is a local of the translation, so
// that loops may rebind it.  What `append` does to the caller's backing array is not modelled (recorded as trusted).
var k01dec2Done = map[interface{}]bool{}

func (fc *fnCtx) k01dec2Accumulators(body []ast.Stmt) {
	if k01dec2Done[fc.m] {
		return
	}
	k01dec2Done[fc.m] = true // the first call sees the whole function body
	acc := map[string]bool{}
	ast.Inspect(&ast.BlockStmt{List: body}, func(n ast.Node) bool {
		as, ok := n.(*ast.AssignStmt)
		if !ok || as.Tok != token.ASSIGN || len(as.Lhs) != 1 || len(as.Rhs) != 1 {
			return true
		}
		id, ok := as.Lhs[0].(*ast.Ident)
		if !ok {
			return true
		}
		if call, ok := as.Rhs[0].(*ast.CallExpr); ok {
			if f, ok := call.Fun.(*ast.Ident); ok && f.Name == "append" {
				acc[id.Name] = true
			}
		}
		return true
	})
	var keep []string
	for _, p := range fc.paramNames {
		if acc[p] && fc.m.ltype[p] == "List Int" {
			continue
		}
		keep = append(keep, p)
	}
	fc.paramNames = keep
}

// k01dec2Append: `x = append(x, v)` as `x ++ [v]`; `x = append(x[:i], x[i+1:]...)` as the checked deletion `delAt x i`
func (fc *fnCtx) k01dec2Append(as *ast.AssignStmt, call *ast.CallExpr, rest []ast.Stmt, lvl int) (string, bool, error) {
	f, ok := call.Fun.(*ast.Ident)
	if !ok || f.Name != "append" || len(call.Args) != 2 || as.Tok != token.ASSIGN || len(as.Lhs) != 1 {
		return "", false, nil
	}
	if _, isBuiltin := fc.p.TypesInfo.Uses[f].(*types.Builtin); !isBuiltin {
		return "", false, nil
	}
	id, ok := as.Lhs[0].(*ast.Ident)
	if !ok {
		return "", false, nil
	}
	if _, seen := fc.locals[id.Name]; !seen || fc.m.ltype[id.Name] != "List Int" {
		return "", false, nil
	}
	var val string
	if a0, ok := call.Args[0].(*ast.Ident); ok && a0.Name == id.Name && call.Ellipsis == token.NoPos {
		v, err := fc.expr(call.Args[1])
		if err != nil {
			return "", true, err
		}
		val = fmt.Sprintf("(%s ++ [%s])", fc.name(id.Name), v)
	} else if i, ok := k01dec2DeletePattern(id.Name, call); ok {
		iv, err := fc.expr(i)
		if err != nil {
			return "", true, err
		}
		k01dec2Need(fc.m.module)
		val = fc.bind(fmt.Sprintf("Gzx.GoM.delAt %s %s", fc.name(id.Name), iv))
	} else {
		return "", true, fmt.Errorf("append is supported only as `x = append(x, v)` / `x = append(x[:i], x[i+1:]...)`")
	}
	var sb strings.Builder
	sb.WriteString(fc.flush(lvl))
	nn := fc.bump(id.Name)
	fmt.Fprintf(&sb, "%slet %s := %s\n", ind(lvl), nn, val)
	r, err := fc.mblock(rest, lvl)
	if err != nil {
		return "", true, err
	}
	return sb.String() + r, true, nil
}

// k01dec2DeletePattern: append(x[:i], x[i+1:]...)
func k01dec2DeletePattern(x string, call *ast.CallExpr) (ast.Expr, bool) {
	if call.Ellipsis == token.NoPos {
		return nil, false
	}
	a, ok1 := call.Args[0].(*ast.SliceExpr)
	b, ok2 := call.Args[1].(*ast.SliceExpr)
	if !ok1 || !ok2 || a.Slice3 || b.Slice3 || a.Low != nil || a.High == nil || b.High != nil || b.Low == nil {
		return nil, false
	}
	ax, ok1 := a.X.(*ast.Ident)
	bx, ok2 := b.X.(*ast.Ident)
	if !ok1 || !ok2 || ax.Name != x || bx.Name != x {
		return nil, false
	}
	i, ok := a.High.(*ast.Ident)
	if !ok {
		return nil, false
	}
	be, ok := b.Low.(*ast.BinaryExpr)
	if !ok || be.Op != token.ADD {
		return nil, false
	}
	bi, ok1 := be.X.(*ast.Ident)
	one, ok2 := be.Y.(*ast.BasicLit)
	if !ok1 || !ok2 || bi.Name != i.Name || one.Value != "1" {
		return nil, false
	}
	return i, true
}

func k01dec2Need(module string) {
	for _, i := range extraImports[module] {
		if i == "Gzx.GoMK01e" {
			return
		}
	}
	extraImports[module] = append(extraImports[module], "Gzx.GoMK01e")
}

// k01dec2RegionFuel: genRegion does not declare the fuel parameter that a `for cond` loop or a fuelled callee inside the region uses
func (fc *fnCtx) k01dec2RegionFuel(params []string) []string {
	if !k01dec2On() || fc.m == nil || !fc.m.fuelUsed {
		return params
	}
	return append([]string{"(fuel : Nat)"}, params...)
}

// k01dec2GenRegion: kind `regionq` = `region` + the threading of `ops : MatOps M` through the emitted definitions (as kind funcq
// does for whole functions, ext_k01dec.go)
func k01dec2GenRegion(p *packages.Package, e entry) (string, error) {
	if !k01dec2On() {
		return "", fmt.Errorf("kind regionq outside module K01de")
	}
	text, err := genRegion(p, e)
	if err != nil {
		return "", err
	}
	if !strings.Contains(text, "ops.") {
		return text, nil
	}
	text = k01decBodyRe.ReplaceAllString(text, "$1 ops")
	text = regexp.MustCompile(`(?m)^def ([A-Za-z_][A-Za-z0-9_]*_body[0-9]+) ops `).ReplaceAllString(text, "def $1 "+k01decHeader+" ")
	text = strings.Replace(text, "\ndef "+e.lean+" ", "\ndef "+e.lean+" "+k01decHeader+" ", 1)
	return text, nil
}

// k01dec2Type: `func(int, int) bool` (DataMask.isMasked) is an ABSTRACT predicate of the kernel: `(Int → Int → Bool)`
func k01dec2Type(t types.Type) (string, bool) {
	if !k01dec2On() || t == nil {
		return "", false
	}
	sig, ok := t.Underlying().(*types.Signature)
	if !ok || sig.Recv() != nil || sig.Variadic() || sig.Results().Len() != 1 || sig.Params().Len() == 0 {
		return "", false
	}
	parts := []string{}
	for i := 0; i < sig.Params().Len(); i++ {
		lt, err := leanType(sig.Params().At(i).Type())
		if err != nil || lt != "Int" {
			return "", false
		}
		parts = append(parts, "Int")
	}
	rt, err := leanType(sig.Results().At(0).Type())
	if err != nil || (rt != "Bool" && rt != "Int") {
		return "", false
	}
	return "(" + strings.Join(append(parts, rt), " → ") + ")", true
}

// k01dec2Mexpr: `x.f(args)` with x a struct parameter and f a function-valued field: the application of the parameter `x_f`
func (fc *fnCtx) k01dec2Mexpr(ex ast.Expr) (string, bool, error) {
	if !k01dec2On() || fc.m == nil {
		return "", false, nil
	}
	call, ok := ex.(*ast.CallExpr)
	if !ok {
		return "", false, nil
	}
	sel, ok := call.Fun.(*ast.SelectorExpr)
	if !ok {
		return "", false, nil
	}
	key, lt, ok := fc.fieldKey(sel)
	if !ok || !strings.Contains(lt, "→") {
		return "", false, nil
	}
	f, err := fc.expr(sel)
	if err != nil {
		return "", true, err
	}
	_ = key
	as, err := fc.k01decArgs(call.Args)
	if err != nil {
		return "", true, err
	}
	return "(" + strings.Join(append([]string{f}, as...), " ") + ")", true, nil
}

// k01dec2MatrixOuts: a parameter of the abstract matrix type that a mutating method rebinds is part of the result
func (fc *fnCtx) k01dec2MatrixOuts(assigned map[string]bool, outTypes []string) []string {
	if !k01dec2On() || fc.m == nil {
		return outTypes
	}
	for _, n := range fc.paramNames {
		if assigned[n] && fc.m.ltype[n] == "M" && !fc.isOutVar(n) {
			fc.m.outVars = append(fc.m.outVars, n)
			outTypes = append(outTypes, "M")
		}
	}
	return outTypes
}
