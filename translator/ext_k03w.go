// Work package k03w — the 1-D WRITERS (oned/*_writer.go) in the monadic target (kind `funcm`), module `K03w…` only.
//
// monadic.go calls the hooks below (each marked `// wp k03w`); every hook is a no-op unless the module being generated
// starts with `K03w` (k03wOn), so every other generated module stays byte-identical.
//
//	leanTypeM   -> k03wType        `[]bool` is `List Int` (false = 0, true = 1: the representation of a module row)
//	massign     -> fc.k03wAssign   `xs[i] = <bool>` on a []bool (`Gzx.GoM.b2i`); `s += <string>` / `s = <string expr>` on a
//	                               string (strings are values: a string PARAMETER may be rebound, it is not an out variable);
//	                               `n += F(args)` with F a translated callee that writes a slice argument
//	mexpr       -> fc.k03wMexpr    `xs[i]` of a []bool as a Bool (`!= 0`); calls `strings.…`/`strconv.…` listed below
//	lexpr       -> fc.k03wLexpr    string expressions: `a + b`, `strconv.Itoa(n)` (`Gzx.GoM.itoa`), `string(<byte|rune>)`
//	                               (`Gzx.GoM.utf8Enc`), `append(xs, …)` on integer slices, `[]byte(s)`, `string(bs)`
//	mrange      -> fc.k03wRange    `for _, c := range <string>`: the runes of the string (`Gzx.GoM.runes`: Go's UTF-8 decoding,
//	                               U+FFFD for an invalid byte) — only without a key variable (the key is a byte offset)
//	genFuncM    -> k03wSkipParam   a parameter of map / interface type the body never mentions is dropped (`hints`)
//	            -> k03wOuts        string parameters are never out variables
//
// Run-time library: lean/Gzx/GoMK03w.lean.
package main

import (
	"fmt"
	"go/ast"
	"go/constant"
	"go/token"
	"go/types"
	"regexp"
	"sort"
	"strings"
)

func k03wOn() bool { return strings.HasPrefix(curModule, "K03w") }

func k03wNeedLib(module string) {
	for _, i := range extraImports[module] {
		if i == "Gzx.GoMK03w" {
			return
		}
	}
	extraImports[module] = append(extraImports[module], "Gzx.GoMK03w")
}

func k03wIsBoolSlice(t types.Type) bool {
	if t == nil {
		return false
	}
	s, ok := t.Underlying().(*types.Slice)
	if !ok {
		return false
	}
	b, ok := s.Elem().Underlying().(*types.Basic)
	return ok && b.Kind() == types.Bool
}

func k03wIsString(t types.Type) bool {
	if t == nil {
		return false
	}
	b, ok := t.Underlying().(*types.Basic)
	return ok && b.Info()&types.IsString != 0
}

// k03wType: `[]bool` as a list of 0/1
func k03wType(t types.Type) (string, bool) {
	if !k03wOn() || t == nil {
		return "", false
	}
	if k03wIsBoolSlice(t) {
		return "List Int", true
	}
	if t.String() == "error" || isErrorType(t) { // `var e error`: an error value is a Bool (nil = false)
		return "Bool", true
	}
	return "", false
}

// k03wParamNames: string parameters are values: rebinding one (`contents, e = convert(contents)`) is not visible to the
// caller, so they are ordinary locals of the translation (never "parameters whose elements the body writes")
func k03wParamNames(fc *fnCtx, fd *ast.FuncDecl, names []string) []string {
	if !k03wOn() {
		return names
	}
	strParam := map[string]bool{}
	for _, fl := range fd.Type.Params.List {
		if k03wIsString(fc.p.TypesInfo.TypeOf(fl.Type)) {
			for _, n := range fl.Names {
				strParam[n.Name] = true
			}
		}
	}
	var out []string
	for _, n := range names {
		if !strParam[n] {
			out = append(out, n)
		}
	}
	return out
}

// k03wSkipParam: an untranslatable parameter (map / interface) the body never mentions
func k03wSkipParam(fc *fnCtx, fd *ast.FuncDecl, fl *ast.Field) bool {
	if !k03wOn() {
		return false
	}
	t := fc.p.TypesInfo.TypeOf(fl.Type)
	switch t.Underlying().(type) {
	case *types.Map, *types.Interface:
	default:
		if st := structOf(t); st == nil || st.NumFields() != 0 {
			return false
		}
	}
	names := map[string]bool{}
	for _, n := range fl.Names {
		names[n.Name] = true
	}
	used := false
	ast.Inspect(fd.Body, func(n ast.Node) bool {
		if id, ok := n.(*ast.Ident); ok && names[id.Name] {
			if obj := fc.p.TypesInfo.Uses[id]; obj != nil {
				if _, isVar := obj.(*types.Var); isVar {
					used = true
				}
			}
		}
		return !used
	})
	return !used
}

// k03wOuts: string parameters are values, never out variables
func k03wOuts(fc *fnCtx, fd *ast.FuncDecl, outs, outTypes []string) ([]string, []string) {
	if !k03wOn() {
		return outs, outTypes
	}
	strParam := map[string]bool{}
	for _, fl := range fd.Type.Params.List {
		if k03wIsString(fc.p.TypesInfo.TypeOf(fl.Type)) {
			for _, n := range fl.Names {
				strParam[n.Name] = true
			}
		}
	}
	var ko, kt []string
	for i, o := range outs {
		if strParam[o] {
			continue
		}
		ko = append(ko, o)
		kt = append(kt, outTypes[i])
	}
	return ko, kt
}

func (fc *fnCtx) k03wTypeOfLhs(l ast.Expr) types.Type {
	if id, ok := l.(*ast.Ident); ok {
		if obj := fc.p.TypesInfo.Defs[id]; obj != nil {
			return obj.Type()
		}
		if obj := fc.p.TypesInfo.Uses[id]; obj != nil {
			return obj.Type()
		}
	}
	return fc.p.TypesInfo.TypeOf(l)
}

func (fc *fnCtx) k03wAssign(x *ast.AssignStmt, rest []ast.Stmt, lvl int) (string, bool, error) {
	if !k03wOn() || fc.m == nil {
		return "", false, nil
	}
	cont := func(prefix string) (string, bool, error) {
		r, err := fc.mblock(rest, lvl)
		if err != nil {
			return "", true, err
		}
		return prefix + r, true, nil
	}
	if len(x.Lhs) != 1 || len(x.Rhs) != 1 {
		return "", false, nil
	}
	l, r := x.Lhs[0], x.Rhs[0]
	// xs[i] = <bool> on a []bool
	if ix, ok := l.(*ast.IndexExpr); ok && x.Tok == token.ASSIGN && k03wIsBoolSlice(fc.p.TypesInfo.TypeOf(ix.X)) {
		key, ok := fc.lvalueKey(ix.X)
		if !ok {
			return "", true, fmt.Errorf("assignment to non-local")
		}
		if _, ok := fc.locals[key]; !ok {
			return "", true, fmt.Errorf("element assignment to non-local slice %s", key)
		}
		if fc.isParam(key) && !fc.isOutVar(key) {
			return "", true, fmt.Errorf("element assignment to parameter %s (visible to the caller)", key)
		}
		i, err := fc.expr(ix.Index)
		if err != nil {
			return "", true, err
		}
		v, err := fc.expr(r)
		if err != nil {
			return "", true, err
		}
		k03wNeedLib(fc.m.module)
		nv := fc.bind(fmt.Sprintf("Gzx.GoM.setIdx %s %s (Gzx.GoM.b2i %s)", fc.name(key), i, v))
		var sb strings.Builder
		sb.WriteString(fc.flush(lvl))
		fc.declare(key, "List Int")
		fmt.Fprintf(&sb, "%slet %s := %s\n", ind(lvl), fc.name(key), nv)
		return cont(sb.String())
	}
	id, isId := l.(*ast.Ident)
	if !isId || id.Name == "_" {
		return "", false, nil
	}
	lt := fc.k03wTypeOfLhs(l)
	// s += <string> / s = <string expression> (a string parameter may be rebound)
	if k03wIsString(lt) && (x.Tok == token.ADD_ASSIGN || x.Tok == token.ASSIGN || x.Tok == token.DEFINE) {
		if x.Tok != token.DEFINE {
			if _, ok := fc.locals[id.Name]; !ok {
				return "", true, fmt.Errorf("free identifier %s", id.Name)
			}
		}
		if x.Tok == token.DEFINE && !fc.isParam(id.Name) {
			if _, isCall := r.(*ast.CallExpr); !isCall {
				if _, isBin := r.(*ast.BinaryExpr); !isBin {
					return "", false, nil // the ordinary translation handles it
				}
			}
		}
		val, err := fc.lexpr(r)
		if err != nil {
			return "", true, err
		}
		if x.Tok == token.ADD_ASSIGN {
			val = "(" + fc.name(id.Name) + " ++ " + val + ")"
		}
		var sb strings.Builder
		sb.WriteString(fc.flush(lvl))
		fc.declare(id.Name, "List Int")
		fmt.Fprintf(&sb, "%slet %s := %s\n", ind(lvl), fc.name(id.Name), val)
		return cont(sb.String())
	}
	return "", false, nil
}

func (fc *fnCtx) k03wPkgCall(x *ast.CallExpr) (pkg, fn string, ok bool) {
	sel, isSel := x.Fun.(*ast.SelectorExpr)
	if !isSel {
		return
	}
	pk, isId := sel.X.(*ast.Ident)
	if !isId {
		return
	}
	pn, isPkg := fc.p.TypesInfo.Uses[pk].(*types.PkgName)
	if !isPkg {
		return
	}
	return pn.Imported().Path(), sel.Sel.Name, true
}

func (fc *fnCtx) k03wMexpr(ex ast.Expr) (string, bool, error) {
	if !k03wOn() || fc.m == nil {
		return "", false, nil
	}
	switch x := ex.(type) {
	case *ast.Ident:
		// a package-level integer variable initialised with `TABLE[<constant>]` and never assigned: its value
		if obj, ok := fc.p.TypesInfo.Uses[x].(*types.Var); ok && obj.Pkg() != nil && obj.Parent() == obj.Pkg().Scope() {
			if _, isLocal := fc.locals[x.Name]; isLocal {
				return "", false, nil
			}
			if lt, err := leanType(obj.Type()); err == nil && lt == "Int" && !assignedAnywhere(fc.p, obj) {
				if op := pkgs[obj.Pkg().Path()]; op != nil {
					if init, ip := findVarInit(op, obj.Name()); init != nil {
						if ie, ok := init.(*ast.IndexExpr); ok {
							if tid, ok := ie.X.(*ast.Ident); ok {
								if tobj, ok := ip.TypesInfo.Uses[tid].(*types.Var); ok && !assignedAnywhere(ip, tobj) {
									if vals, ok := fc.constList(ip, tid, 0); ok {
										if iv, ok := ip.TypesInfo.Types[ie.Index]; ok && iv.Value != nil {
											if k, exact := constant.Int64Val(iv.Value); exact && k >= 0 && int(k) < len(vals) {
												return fmt.Sprintf("%d", vals[k]), true, nil
											}
										}
									}
								}
							}
						}
					}
				}
			}
		}
	case *ast.IndexExpr:
		if k03wIsBoolSlice(fc.p.TypesInfo.TypeOf(x.X)) {
			base, err := fc.lexpr(x.X)
			if err != nil {
				return "", true, err
			}
			i, err := fc.expr(x.Index)
			if err != nil {
				return "", true, err
			}
			t := fc.bind(fmt.Sprintf("Gzx.GoM.idx %s %s", base, i))
			return "(" + t + " != 0)", true, nil
		}
	}
	return "", false, nil
}

func (fc *fnCtx) k03wLexpr(ex ast.Expr) (string, bool, error) {
	if !k03wOn() || fc.m == nil {
		return "", false, nil
	}
	switch x := ex.(type) {
	case *ast.BinaryExpr:
		if x.Op == token.ADD && k03wIsString(fc.p.TypesInfo.TypeOf(x)) {
			if tv, ok := fc.p.TypesInfo.Types[ex]; ok && tv.Value != nil {
				return "", false, nil // constant: the ordinary translation inlines it
			}
			a, err := fc.lexpr(x.X)
			if err != nil {
				return "", true, err
			}
			b, err := fc.lexpr(x.Y)
			if err != nil {
				return "", true, err
			}
			return "(" + a + " ++ " + b + ")", true, nil
		}
	case *ast.IndexExpr:
		// G[i] of a package-level [][]int: a constant literal is inlined as a table of rows, a table the package fills at
		// run time (init) is a leading PARAMETER `g_<name>` of the generated definition
		if id, ok := x.X.(*ast.Ident); ok {
			if obj, ok := fc.p.TypesInfo.Uses[id].(*types.Var); ok && obj.Pkg() != nil && obj.Parent() == obj.Pkg().Scope() {
				if lt, ok := extLeanType(obj.Type()); ok && lt == list2 {
					i, err := fc.expr(x.Index)
					if err != nil {
						return "", true, err
					}
					needExt(fc.m.module)
					if rows, ok := fc.k03wConstRows(id); ok && !assignedAnywhere(fc.p, obj) {
						return fc.bind(fmt.Sprintf("Gzx.GoM.idxRow %s %s", fc.k03wTable2(id.Name, rows), i)), true, nil
					}
					g := "g_" + id.Name
					seen := false
					for _, q := range k03wGlobals[fc.m] {
						if q == g {
							seen = true
						}
					}
					if !seen {
						k03wGlobals[fc.m] = append(k03wGlobals[fc.m], g)
					}
					return fc.bind(fmt.Sprintf("Gzx.GoM.idxRow %s %s", g, i)), true, nil
				}
			}
		}
	case *ast.CallExpr:
		if id, ok := x.Fun.(*ast.Ident); ok {
			if _, isBuiltin := fc.p.TypesInfo.Uses[id].(*types.Builtin); isBuiltin {
				switch id.Name {
				case "make":
					// make([]T, 0, n): the empty slice (capacity is never observed by the translation); panics when n < 0
					if len(x.Args) == 3 {
						if lt, err := leanTypeM(fc.p.TypesInfo.TypeOf(x)); err == nil && lt == "List Int" {
							l := fc.p.TypesInfo.Types[x.Args[1]]
							c := fc.p.TypesInfo.Types[x.Args[2]]
							if l.Value != nil && l.Value.String() == "0" {
								if c.Value != nil && constant.Sign(c.Value) >= 0 {
									return "[]", true, nil
								}
								n, err := fc.expr(x.Args[2])
								if err != nil {
									return "", true, err
								}
								fc.bind("Gzx.GoM.mk " + n)
								return "[]", true, nil
							}
						}
						return "", true, fmt.Errorf("make with a capacity: only make([]T, 0, n)")
					}
				case "append":
					if lt, err := leanTypeM(fc.p.TypesInfo.TypeOf(x)); err != nil || lt != "List Int" || len(x.Args) < 1 {
						return "", true, fmt.Errorf("append on a non-integer slice")
					}
					if _, isId := x.Args[0].(*ast.Ident); !isId {
						return "", true, fmt.Errorf("append to a non-local")
					}
					base, err := fc.lexpr(x.Args[0])
					if err != nil {
						return "", true, err
					}
					if x.Ellipsis != token.NoPos {
						if len(x.Args) != 2 {
							return "", true, fmt.Errorf("append with ... and several arguments")
						}
						ys, err := fc.lexpr(x.Args[1])
						if err != nil {
							return "", true, err
						}
						return "(" + base + " ++ " + ys + ")", true, nil
					}
					var es []string
					for _, a := range x.Args[1:] {
						e, err := fc.expr(a)
						if err != nil {
							return "", true, err
						}
						es = append(es, e)
					}
					return "(" + base + " ++ [" + strings.Join(es, ", ") + "])", true, nil
				}
			}
		}
		if id, ok := x.Fun.(*ast.Ident); ok {
			// a function translated earlier into this module that returns a slice / string
			if fn, ok := fc.p.TypesInfo.Uses[id].(*types.Func); ok && fn.Pkg() != nil {
				if _, ok := callees[fc.m.module+"|"+relPkg(fn.Pkg().Path())+"."+fn.Name()]; ok {
					s, err := fc.expr(ex)
					return s, true, err
				}
			}
		}
		if pkg, fn, ok := fc.k03wPkgCall(x); ok {
			if pkg == "strconv" && fn == "Itoa" && len(x.Args) == 1 {
				a, err := fc.expr(x.Args[0])
				if err != nil {
					return "", true, err
				}
				k03wNeedLib(fc.m.module)
				return "(Gzx.GoM.itoa " + a + ")", true, nil
			}
			return "", false, nil
		}
		// string(<byte|rune|int>) / string(<[]byte>) / []byte(<string>)
		if tv, ok := fc.p.TypesInfo.Types[x.Fun]; ok && tv.IsType() && len(x.Args) == 1 {
			at := fc.p.TypesInfo.TypeOf(x.Args[0])
			if k03wIsString(tv.Type) {
				if atv, ok := fc.p.TypesInfo.Types[x.Args[0]]; ok && atv.Value != nil {
					return "", false, nil
				}
				if lt, err := leanType(at); err == nil && lt == "Int" {
					a, err := fc.expr(x.Args[0])
					if err != nil {
						return "", true, err
					}
					k03wNeedLib(fc.m.module)
					return "(Gzx.GoM.utf8Enc " + a + ")", true, nil
				}
				if lt, err := leanTypeM(at); err == nil && lt == "List Int" {
					s, err := fc.lexpr(x.Args[0])
					return s, true, err
				}
			}
			if lt, err := leanTypeM(tv.Type); err == nil && lt == "List Int" && k03wIsString(at) {
				if el, ok := tv.Type.Underlying().(*types.Slice); ok && unsignedBits(el.Elem()) == 8 {
					s, err := fc.lexpr(x.Args[0])
					return s, true, err
				}
			}
		}
	}
	return "", false, nil
}

// k03wRange: `for _, c := range <string>` ranges over the runes of the string
func (fc *fnCtx) k03wRange(x *ast.RangeStmt, rest []ast.Stmt, lvl int) (string, bool, error) {
	if !k03wOn() || fc.m == nil {
		return "", false, nil
	}
	t := fc.p.TypesInfo.TypeOf(x.X)
	if !k03wIsString(t) {
		return "", false, nil
	}
	if x.Tok != token.DEFINE {
		return "", true, fmt.Errorf("range with assignment")
	}
	if id, ok := x.Key.(*ast.Ident); x.Key != nil && (!ok || id.Name != "_") {
		return "", true, fmt.Errorf("range over a string with a key variable (byte offsets)")
	}
	s, err := fc.lexpr(x.X)
	if err != nil {
		return "", true, err
	}
	if len(fc.m.pre) > 0 {
		return "", true, fmt.Errorf("checked operation in the range expression")
	}
	assigned, _, _ := assignedIn3(x.Body.List)
	if mentions(x.X, assigned) {
		return "", true, fmt.Errorf("range expression is modified by the loop body")
	}
	k03wNeedLib(fc.m.module)
	xs := "(Gzx.GoM.runes " + s + ")"
	var header func() (string, error)
	if id, ok := x.Value.(*ast.Ident); ok && id.Name != "_" {
		if _, seen := fc.locals[id.Name]; seen {
			return "", true, fmt.Errorf("loop variable shadows %s", id.Name)
		}
		header = func() (string, error) {
			fc.declare(id.Name, "Int")
			return fmt.Sprintf("  Gzx.GoM.tryC (Gzx.GoM.idx %s i) fun %s =>\n", xs, fc.name(id.Name)), nil
		}
	}
	trip := fmt.Sprintf("(Gzx.GoM.tripUp 0 (Gzx.GoM.len %s) 1)", xs)
	text, err := fc.loopCore(x.Body, []ast.Node{x.X}, "", header, "1", trip, "0", rest, lvl)
	return text, true, err
}

// k03wStmt: statement forms that must be seen before ext_k17k20's extStmt
func (fc *fnCtx) k03wStmt(s ast.Stmt, rest []ast.Stmt, lvl int) (string, bool, error) {
	if !k03wOn() || fc.m == nil {
		return "", false, nil
	}
	x, ok := s.(*ast.AssignStmt)
	if !ok || len(x.Lhs) != 1 || len(x.Rhs) != 1 {
		return "", false, nil
	}
	cont := func(prefix string) (string, bool, error) {
		r, err := fc.mblock(rest, lvl)
		if err != nil {
			return "", true, err
		}
		return prefix + r, true, nil
	}
	l, r := x.Lhs[0], x.Rhs[0]
	id, isId := l.(*ast.Ident)
	if !isId || id.Name == "_" {
		return "", false, nil
	}
	lt := fc.k03wTypeOfLhs(l)
	// n op= F(args), F a translated callee that writes a slice argument
	if call, ok := r.(*ast.CallExpr); ok && x.Tok != token.DEFINE && x.Tok != token.ASSIGN {
		if ci, args, ok := fc.extCalleeOf(call); ok && len(ci.outs) > 0 && ci.nres == 1 {
			if _, ok := fc.locals[id.Name]; !ok {
				return "", true, fmt.Errorf("free identifier %s", id.Name)
			}
			pre, res, err := fc.extCall(ci, args, lvl)
			if err != nil {
				return "", true, err
			}
			val, err := fc.opAssign(x.Tok, fc.name(id.Name), res[0], lt, r)
			if err != nil {
				return "", true, err
			}
			var sb strings.Builder
			sb.WriteString(pre)
			sb.WriteString(fc.flush(lvl))
			llt, err := leanTypeM(lt)
			if err != nil {
				return "", true, err
			}
			fc.declare(id.Name, llt)
			fmt.Fprintf(&sb, "%slet %s := %s\n", ind(lvl), fc.name(id.Name), val)
			return cont(sb.String())
		}
	}
	return "", false, nil
}

// k03wGlobals: run-time filled package-level tables a definition reads: leading parameters `g_<name> : List (List Int)`
var k03wGlobals = map[*mstate][]string{}

func (fc *fnCtx) k03wGlobalParams(params []string) []string {
	if !k03wOn() || fc.m == nil {
		return params
	}
	var gp []string
	for _, g := range k03wGlobals[fc.m] {
		gp = append(gp, fmt.Sprintf("(%s : %s)", g, list2))
	}
	return append(gp, params...)
}

// k03wConstRows: a package-level [][]int whose initialiser is a literal of literals of integer constants
func (fc *fnCtx) k03wConstRows(id *ast.Ident) ([][]int64, bool) {
	obj, ok := fc.p.TypesInfo.Uses[id].(*types.Var)
	if !ok || obj.Pkg() == nil {
		return nil, false
	}
	op := pkgs[obj.Pkg().Path()]
	if op == nil {
		return nil, false
	}
	init, ip := findVarInit(op, obj.Name())
	if init == nil {
		return nil, false
	}
	cl, ok := init.(*ast.CompositeLit)
	if !ok {
		return nil, false
	}
	var rows [][]int64
	for _, el := range cl.Elts {
		if _, ok := el.(*ast.KeyValueExpr); ok {
			return nil, false
		}
		row, ok := fc.constList(ip, el, 0)
		if !ok {
			return nil, false
		}
		rows = append(rows, row)
	}
	return rows, true
}

func (fc *fnCtx) k03wTable2(name string, rows [][]int64) string {
	ln := "tbl2_" + name
	if !fc.m.tableSeen[ln] && !moduleTables[fc.m.module+"|"+ln] {
		fc.m.tableSeen[ln] = true
		var rs []string
		for _, r := range rows {
			rs = append(rs, intLitList(r))
		}
		fc.m.tables = append(fc.m.tables, fmt.Sprintf("/-- package-level table %s (inlined) -/\ndef %s : List (List Int) := [%s]\n", name, ln, strings.Join(rs, ", ")))
	}
	return ln
}

// k03wThread: the loop-body definitions of a function that reads run-time filled tables take them as leading parameters
func (fc *fnCtx) k03wThread(text string) string {
	if !k03wOn() || fc.m == nil || len(k03wGlobals[fc.m]) == 0 {
		return text
	}
	var ps, as []string
	for _, g := range k03wGlobals[fc.m] {
		ps = append(ps, fmt.Sprintf("(%s : %s)", g, list2))
		as = append(as, g)
	}
	re := regexp.MustCompile(`(def )?\b` + regexp.QuoteMeta(fc.m.lean) + `_body(\d+)\b`)
	return re.ReplaceAllStringFunc(text, func(m string) string {
		if strings.HasPrefix(m, "def ") {
			return m + " " + strings.Join(ps, " ")
		}
		return m + " " + strings.Join(as, " ")
	})
}

// k03wOrderState: the loop state ordered by Lean type (lists, integers, booleans, others), declaration order within a type:
// swapping the declarations of two locals of different types does not change the generated definitions
func (fc *fnCtx) k03wOrderState(state []string) []string {
	if !k03wOn() || fc.m == nil {
		return state
	}
	rank := func(n string) int {
		switch lt := fc.m.ltype[n]; {
		case strings.HasPrefix(lt, "List"):
			return 0
		case lt == "Int":
			return 1
		case lt == "Bool":
			return 2
		}
		return 3
	}
	out := append([]string{}, state...)
	sort.SliceStable(out, func(i, j int) bool { return rank(out[i]) < rank(out[j]) })
	return out
}
