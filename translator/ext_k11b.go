// Work package k11b — the Aztec decoder (module K11b) and the Data Matrix bit-stream parser (module K02d) as kernels.
// Everything lives in this file; monadic.go only calls the hooks below (each marked `// wp k11b`), and every hook is a
// no-op unless the generated module is K11b… / K02d… (k11bOn).
//
//	leanTypeM  -> k11bType        `[]bool` is `List Int` holding 0 / 1 (a read is `(x != 0)`, a write `Gzx.GoM.b2i v`), so that
//	                              the whole slice machinery of the monadic target (make, len, checked reads / writes, loop
//	                              state, results) applies unchanged; OPAQUE object types (a Reed-Solomon field, an RS decoder)
//	                              are `Int` tokens
//	genFuncM   -> fc.k11bPrepare  AST pre-pass over the function (the AST of /repo is private to this process):
//	                              * `<recv>.ddata.IsCompact()` / `GetNbLayers()` / `GetNbDatablocks()` become the leading
//	                                parameters `ddata_compact : Bool`, `ddata_nbLayers`, `ddata_nbDatablocks : Int`;
//	                              * calls of functions the kernel does not own become calls of an ABSTRACT parameter
//	                                (`matrix.Get(x, y)` -> `matrix_Get x y : Res Bool`, `rsDecoder.Decode(ws, k)` ->
//	                                `rs_Decode dec ws k : Res (Bool × List Int)` — the callee may write its slice argument,
//	                                so the slice comes back with the result), package-level objects become abstract `Int`
//	                                parameters named like the Go variable;
//	                              * `gozxing.NewFormatException(…)` / `WrapFormatException(e)` are the error value `true`
//	mexpr      -> fc.k11bMexpr    reads of `[]bool` elements, calls of the abstract parameters
//	assignment -> fc.k11bElemVal  writes of `[]bool` elements
//	assignment -> fc.k11bAssign   `x := abstract(…)` / `if ex := dec.Decode(ws, k); ex != nil` with a written slice argument
//	genFuncM   -> fc.k11bParams   the abstract parameters in front of the ordinary ones
//
// Run-time library: lean/Gzx/GoMK11b.lean (`b2i`).
package main

import (
	"fmt"
	"go/ast"
	"go/token"
	"go/types"
	"sort"
	"strings"
)

func k11bOn() bool { return strings.HasPrefix(curModule, "K11b") || strings.HasPrefix(curModule, "K02d") }

func k11bNeedLib(module string) {
	for _, i := range extraImports[module] {
		if i == "Gzx.GoMK11b" {
			return
		}
	}
	extraImports[module] = append(extraImports[module], "Gzx.GoMK11b")
}

// ---------- types ----------

func k11bIsBoolSlice(t types.Type) bool {
	if t == nil {
		return false
	}
	if s, ok := t.Underlying().(*types.Slice); ok {
		if b, ok := s.Elem().Underlying().(*types.Basic); ok && b.Info()&types.IsBoolean != 0 {
			return true
		}
	}
	return false
}

// opaque object types: values the kernel only passes around (Lean `Int` tokens)
func k11bIsOpaque(t types.Type) bool {
	if t == nil {
		return false
	}
	switch t.String() {
	case "*github.com/makiuchi-d/gozxing/common/reedsolomon.GenericGF",
		"*github.com/makiuchi-d/gozxing/common/reedsolomon.ReedSolomonDecoder":
		return true
	}
	return false
}

func k11bType(t types.Type) (string, bool) {
	if !k11bOn() || t == nil {
		return "", false
	}
	if k11bIsBoolSlice(t) {
		return "List Int", true
	}
	if k11bIsOpaque(t) {
		return "Int", true
	}
	return "", false
}

// ---------- the abstract environment of one kernel ----------

type k11bEnvParam struct{ name, lt string }

type k11bAbs struct {
	name   string // Lean / Go identifier of the parameter
	lt     string // its Lean type
	checked bool  // the result is a `Res`: bind it
	outArg int    // index of a slice argument the callee may write (-1: none): the result is `(<results> × List Int)`
}

var k11bEnv = map[*fnCtx][]k11bEnvParam{}
var k11bAbsOf = map[*fnCtx]map[string]k11bAbs{}

func (fc *fnCtx) k11bDeclare(name, lt string) {
	if _, seen := fc.locals[name]; seen {
		return
	}
	fc.declare(name, lt)
	fc.paramNames = append(fc.paramNames, name)
	k11bEnv[fc] = append(k11bEnv[fc], k11bEnvParam{name, lt})
}

func (fc *fnCtx) k11bIdent(name string, t types.Type, pos token.Pos) *ast.Ident {
	id := &ast.Ident{Name: name, NamePos: pos}
	v := types.NewVar(pos, fc.p.Types, name, t)
	fc.p.TypesInfo.Uses[id] = v
	fc.p.TypesInfo.Types[id] = types.TypeAndValue{Type: t}
	return id
}

// k11bParams: the abstract parameters go in front of the ordinary ones
func (fc *fnCtx) k11bParams(params []string) []string {
	env := k11bEnv[fc]
	if len(env) == 0 {
		return params
	}
	// sorted by name: the parameter order must not depend on the order in which the Go statements mention them
	env = append([]k11bEnvParam{}, env...)
	sort.Slice(env, func(i, j int) bool { return env[i].name < env[j].name })
	var out []string
	for _, e := range env {
		out = append(out, fmt.Sprintf("(%s : %s)", leanIdent(e.name), e.lt))
	}
	return append(out, params...)
}

var k11bDdataGetters = map[string]struct {
	name string
	typ  types.Type
	lt   string
}{
	"IsCompact":       {"ddata_compact", types.Typ[types.Bool], "Bool"},
	"GetNbLayers":     {"ddata_nbLayers", types.Typ[types.Int], "Int"},
	"GetNbDatablocks": {"ddata_nbDatablocks", types.Typ[types.Int], "Int"},
}

// k11bPrepare: the AST pre-pass (see the header)
func (fc *fnCtx) k11bPrepare(fd *ast.FuncDecl) {
	if !k11bOn() {
		return
	}
	k11bAbsOf[fc] = map[string]k11bAbs{}
	recv := ""
	if fd.Recv != nil && len(fd.Recv.List) == 1 && len(fd.Recv.List[0].Names) == 1 {
		recv = fd.Recv.List[0].Names[0].Name
	}
	rewrite := func(e ast.Expr) ast.Expr {
		switch x := e.(type) {
		case *ast.CallExpr:
			sel, ok := x.Fun.(*ast.SelectorExpr)
			if !ok {
				return e
			}
			// <recv>.ddata.<Getter>()
			if in, ok := sel.X.(*ast.SelectorExpr); ok && len(x.Args) == 0 {
				if id, ok := in.X.(*ast.Ident); ok && id.Name == recv && recv != "" && in.Sel.Name == "ddata" {
					if g, ok := k11bDdataGetters[sel.Sel.Name]; ok {
						fc.k11bDeclare(g.name, g.lt)
						return fc.k11bIdent(g.name, g.typ, x.Pos())
					}
				}
			}
			// matrix.Get(x, y) of a *gozxing.BitMatrix parameter
			if id, ok := sel.X.(*ast.Ident); ok && sel.Sel.Name == "Get" && len(x.Args) == 2 {
				if t := fc.p.TypesInfo.TypeOf(id); t != nil && t.String() == "*github.com/makiuchi-d/gozxing.BitMatrix" {
					name := id.Name + "_Get"
					fc.k11bDeclare(name, "Int → Int → Gzx.Res Bool")
					k11bAbsOf[fc][name] = k11bAbs{name: name, lt: "Bool", checked: true, outArg: -1}
					x.Fun = fc.k11bIdent(name, fc.p.TypesInfo.TypeOf(sel), x.Pos())
					return x
				}
			}
			// rsDecoder.Decode(words, twoS)
			if sel.Sel.Name == "Decode" && len(x.Args) == 2 && k11bIsOpaque(fc.p.TypesInfo.TypeOf(sel.X)) {
				name := "rs_Decode"
				fc.k11bDeclare(name, "Int → List Int → Int → Gzx.Res (Bool × List Int)")
				k11bAbsOf[fc][name] = k11bAbs{name: name, lt: "Bool", checked: true, outArg: 1}
				x.Fun = fc.k11bIdent(name, fc.p.TypesInfo.TypeOf(sel), x.Pos())
				x.Args = append([]ast.Expr{sel.X}, x.Args...)
				return x
			}
			if pid, ok := sel.X.(*ast.Ident); ok {
				if pn, ok := fc.p.TypesInfo.Uses[pid].(*types.PkgName); ok {
					full := pn.Imported().Path() + "." + sel.Sel.Name
					switch full {
					case "github.com/makiuchi-d/gozxing/common/reedsolomon.NewReedSolomonDecoder":
						// the decoder object IS its field
						if len(x.Args) == 1 {
							return x.Args[0]
						}
					case "github.com/makiuchi-d/gozxing.NewFormatException", "github.com/makiuchi-d/gozxing.WrapFormatException":
						// an error value: failed = true (its arguments are formatting only; they must not panic: plain
						// identifiers / constants are all the decoders pass)
						return fc.k11bTrue(x)
					}
				}
			}
		case *ast.SelectorExpr:
			// package-level object of an opaque type: abstract Int parameter
			if pid, ok := x.X.(*ast.Ident); ok {
				if _, ok := fc.p.TypesInfo.Uses[pid].(*types.PkgName); ok {
					if t := fc.p.TypesInfo.TypeOf(x); k11bIsOpaque(t) {
						fc.k11bDeclare(x.Sel.Name, "Int")
						return fc.k11bIdent(x.Sel.Name, t, x.Pos())
					}
				}
			}
		}
		return e
	}
	k11bRewriteExprs(fd.Body, rewrite)
	// `return nil, err` of a function whose result is a *T with translatable fields: the zero T (the caller only looks at
	// it when err == nil), so that the result is the tuple of T's fields on every path
	if fd.Type.Results != nil {
		var rts []types.Type
		for _, fl := range fd.Type.Results.List {
			n := len(fl.Names)
			if n == 0 {
				n = 1
			}
			for i := 0; i < n; i++ {
				rts = append(rts, fc.p.TypesInfo.TypeOf(fl.Type))
			}
		}
		ast.Inspect(fd.Body, func(n ast.Node) bool {
			switch x := n.(type) {
			case *ast.FuncLit:
				return false
			case *ast.ReturnStmt:
				for i, r := range x.Results {
					if id, ok := r.(*ast.Ident); ok && id.Name == "nil" && i < len(rts) {
						if _, isPtr := rts[i].Underlying().(*types.Pointer); isPtr {
							if st := structOf(rts[i]); st != nil {
								if _, _, okf := structFields(st); okf {
									x.Results[i] = &ast.UnaryExpr{Op: token.AND, OpPos: r.Pos(), X: &ast.CompositeLit{Lbrace: r.Pos(), Rbrace: r.Pos()}}
								}
							}
						}
					}
				}
			}
			return true
		})
	}
}

// k11bTrue: the Go expression `true` standing for a freshly made error value
func (fc *fnCtx) k11bTrue(at ast.Expr) ast.Expr {
	for _, a := range at.(*ast.CallExpr).Args {
		switch y := a.(type) {
		case *ast.Ident, *ast.BasicLit:
			_ = y
		default:
			return at // an argument that could panic: leave the call alone (the kernel becomes untranslatable)
		}
	}
	id := &ast.Ident{Name: "k11b_err", NamePos: at.Pos()}
	fc.p.TypesInfo.Types[id] = types.TypeAndValue{Type: types.Universe.Lookup("error").Type()}
	return id
}

// k11bRewriteExprs applies f bottom-up to every expression position of the statement tree.
func k11bRewriteExprs(n ast.Node, f func(ast.Expr) ast.Expr) {
	var re func(e ast.Expr) ast.Expr
	var rs func(s ast.Stmt)
	res := func(es []ast.Expr) {
		for i := range es {
			es[i] = re(es[i])
		}
	}
	re = func(e ast.Expr) ast.Expr {
		if e == nil {
			return nil
		}
		switch x := e.(type) {
		case *ast.ParenExpr:
			x.X = re(x.X)
		case *ast.BinaryExpr:
			x.X, x.Y = re(x.X), re(x.Y)
		case *ast.UnaryExpr:
			x.X = re(x.X)
		case *ast.StarExpr:
			x.X = re(x.X)
		case *ast.IndexExpr:
			x.X, x.Index = re(x.X), re(x.Index)
		case *ast.SliceExpr:
			x.X, x.Low, x.High, x.Max = re(x.X), re(x.Low), re(x.High), re(x.Max)
		case *ast.SelectorExpr:
			x.X = re(x.X)
		case *ast.CallExpr:
			x.Fun = re(x.Fun)
			res(x.Args)
		case *ast.CompositeLit:
			res(x.Elts)
		case *ast.KeyValueExpr:
			x.Value = re(x.Value)
		}
		return f(e)
	}
	rs = func(s ast.Stmt) {
		switch x := s.(type) {
		case nil:
		case *ast.BlockStmt:
			if x != nil {
				for _, st := range x.List {
					rs(st)
				}
			}
		case *ast.ExprStmt:
			x.X = re(x.X)
		case *ast.AssignStmt:
			res(x.Lhs)
			res(x.Rhs)
		case *ast.IncDecStmt:
			x.X = re(x.X)
		case *ast.ReturnStmt:
			res(x.Results)
		case *ast.IfStmt:
			rs(x.Init)
			x.Cond = re(x.Cond)
			rs(x.Body)
			rs(x.Else)
		case *ast.ForStmt:
			rs(x.Init)
			x.Cond = re(x.Cond)
			rs(x.Post)
			rs(x.Body)
		case *ast.RangeStmt:
			x.X = re(x.X)
			rs(x.Body)
		case *ast.SwitchStmt:
			rs(x.Init)
			x.Tag = re(x.Tag)
			rs(x.Body)
		case *ast.CaseClause:
			res(x.List)
			for _, st := range x.Body {
				rs(st)
			}
		case *ast.DeclStmt:
			if gd, ok := x.Decl.(*ast.GenDecl); ok {
				for _, sp := range gd.Specs {
					if vs, ok := sp.(*ast.ValueSpec); ok {
						res(vs.Values)
					}
				}
			}
		}
	}
	if st, ok := n.(ast.Stmt); ok {
		rs(st)
	}
}

// ---------- expressions ----------

func (fc *fnCtx) k11bMexpr(ex ast.Expr) (string, bool, error) {
	if !k11bOn() || fc.m == nil {
		return "", false, nil
	}
	switch x := ex.(type) {
	case *ast.Ident:
		if x.Name == "k11b_err" {
			return "true", true, nil
		}
	case *ast.IndexExpr:
		if k11bIsBoolSlice(fc.p.TypesInfo.TypeOf(x.X)) {
			base, err := fc.lexpr(x.X)
			if err != nil {
				return "", true, err
			}
			i, err := fc.expr(x.Index)
			if err != nil {
				return "", true, err
			}
			return "(" + fc.bind(fmt.Sprintf("Gzx.GoM.idx %s %s", base, i)) + " != 0)", true, nil
		}
	case *ast.CallExpr:
		id, ok := x.Fun.(*ast.Ident)
		if !ok {
			return "", false, nil
		}
		ab, ok := k11bAbsOf[fc][id.Name]
		if !ok {
			return "", false, nil
		}
		if ab.outArg >= 0 {
			return "", true, fmt.Errorf("call of %s (writes its slice argument) in expression position", ab.name)
		}
		call, err := fc.k11bCall(ab, x)
		if err != nil {
			return "", true, err
		}
		if ab.checked {
			return fc.bind(call), true, nil
		}
		return "(" + call + ")", true, nil
	}
	return "", false, nil
}

func (fc *fnCtx) k11bCall(ab k11bAbs, x *ast.CallExpr) (string, error) {
	parts := []string{fc.name(ab.name)}
	for _, a := range x.Args {
		var s string
		var err error
		if lt, lerr := leanTypeM(fc.p.TypesInfo.TypeOf(a)); lerr == nil && lt == "List Int" {
			s, err = fc.lexpr(a)
		} else {
			s, err = fc.expr(a)
		}
		if err != nil {
			return "", err
		}
		parts = append(parts, s)
	}
	return strings.Join(parts, " "), nil
}

// k11bElemVal: the value written into a `[]bool` element
func (fc *fnCtx) k11bElemVal(lx *ast.IndexExpr, val string) string {
	if !k11bOn() || !k11bIsBoolSlice(fc.p.TypesInfo.TypeOf(lx.X)) {
		return val
	}
	k11bNeedLib(fc.m.module)
	return "(Gzx.GoM.b2i " + val + ")"
}

// k11bAssign: `x := abs(args)` / `x = abs(args)` where the abstract callee may write a slice argument: the slice is
// rebound from the result.  (`if ex := dec.Decode(ws, k); ex != nil {…}` arrives here through the `if` initialiser.)
func (fc *fnCtx) k11bAssign(x *ast.AssignStmt, rest []ast.Stmt, lvl int) (string, bool, error) {
	if !k11bOn() || len(x.Rhs) != 1 || len(x.Lhs) != 1 {
		return "", false, nil
	}
	call, ok := x.Rhs[0].(*ast.CallExpr)
	if !ok {
		return "", false, nil
	}
	fid, ok := call.Fun.(*ast.Ident)
	if !ok {
		return "", false, nil
	}
	ab, ok := k11bAbsOf[fc][fid.Name]
	if !ok || ab.outArg < 0 {
		return "", false, nil
	}
	lid, ok := x.Lhs[0].(*ast.Ident)
	if !ok {
		return "", true, fmt.Errorf("result of %s assigned to a non-local", ab.name)
	}
	sid, ok := call.Args[ab.outArg].(*ast.Ident)
	if !ok {
		return "", true, fmt.Errorf("slice argument of %s is not a local", ab.name)
	}
	if fc.isParam(sid.Name) && !fc.isOutVar(sid.Name) {
		return "", true, fmt.Errorf("%s writes parameter %s", ab.name, sid.Name)
	}
	c, err := fc.k11bCall(ab, call)
	if err != nil {
		return "", true, err
	}
	t := fc.bind(c)
	var sb strings.Builder
	sb.WriteString(fc.flush(lvl))
	if lid.Name != "_" {
		fc.declare(lid.Name, ab.lt)
		fmt.Fprintf(&sb, "%slet %s := %s.1\n", ind(lvl), fc.name(lid.Name), t)
	}
	fc.declare(sid.Name, "List Int")
	fmt.Fprintf(&sb, "%slet %s := %s.2\n", ind(lvl), fc.name(sid.Name), t)
	tail, err := fc.mblock(rest, lvl)
	if err != nil {
		return "", true, err
	}
	return sb.String() + tail, true, nil
}
