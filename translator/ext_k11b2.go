// Work package k11b2 — the Data Matrix bit-stream parser (module K02e) and the Aztec high-level decoder (module K11c)
// as kernels.  Everything lives in this file; monadic.go only calls the hooks below (each marked `// wp k11b2`, placed
// after the hooks of the other packages), and every hook is a no-op unless the generated module is K02e… / K11c…
// (k11b2On).
//
//	mblock       -> fc.k11b2Stmt      `if a || f(x) { …; return }` (a checked / called disjunct on the right of `||`) as
//	                                  `if a {…}; if f(x) {…}` (Go evaluates the disjuncts left to right; the body ends in a
//	                                  return) — BitSource.ReadBits needs it
//	massign      -> fc.k11b2Assign    `v, _ := bits.ReadBits(n)`: a translated method of a struct parameter that WRITES its
//	                                  receiver and has results (the results are bound, the written receiver fields rebound)
//	                                  `xs = append(xs, ys)` on a [][]byte (a list of byte lists);
//	                                  `str, e := charmap.ISO8859_1.NewDecoder().Bytes(bs)` = `(Gzx.GoM.latin1Utf8 bs, no error)` (SPECIFIED)
//	leanTypeM    -> k11b2Type         `intSet` (map[int]struct{}) is the `List Int` of the keys added, in order of insertion
//	lexpr        -> fc.k11b2Lexpr     TEXT ACCUMULATION as byte lists (value semantics: the callers of these decoders always
//	                                  continue with the returned slice): `append(x, v)` = `x ++ [v]`, `append(x, ys...)` = `x ++ ys`,
//	                                  `[]byte("constant")`, `[]byte(strconv.Itoa(v))` = `Gzx.GoM.itoa v` (SPECIFIED function),
//	                                  `string(rune(c))` of a byte c = `Gzx.GoM.utf8Byte c` (SPECIFIED: the UTF-8 encoding of U+00cc),
//	                                  `[]byte{}`, `b[lo:hi]` of a []byte within its LENGTH (`Gzx.GoM.slice`: a high bound between len
//	                                  and cap, legal in Go, is reported as a panic — no kernel theorem may need that case)
//	usedNames    -> fc.k11b2Used      a `return` inside a loop body yields the written receiver fields / slice parameters too: they
//	                                  are free variables of the body definition
//	mblock       -> fc.k11b2Stmt      `var e error` (no error: false);
//	                                  `s.add(n)` of an intSet: `s := s ++ [n]` (assignedIn3 -> k11b2AssignedByCall: the set is written,
//	                                  so a set parameter is returned after the results like a written slice parameter)
//	genFuncM     -> fc.k11b2Prepare   AST pre-pass: locals that SHADOW an outer local of the same function are renamed (`b` in
//	                                  decodeBase256Segment), the translation has one flat name space per function
//	genFuncM     -> fc.k11b2View      THE MODE LOOP `DecodedBitStreamParser_decode` is translated as a VIEW of the Go function (module K02e
//	                                  only): the local `bits := common.NewBitSource(bytes)` becomes the leading parameter
//	                                  `bits *common.BitSource` (the caller of the kernel supplies `{bytes, 0, 0}`, which is what
//	                                  NewBitSource builds), and the results are the three values the function hands to
//	                                  `common.NewDecoderResultWithSymbologyModifier` — `result`, `byteSegments`, `symbologyModifier` — plus
//	                                  the error (`return nil, e` = zero values and e).  Everything between is translated as it stands.
//	mexpr        -> fc.k11b2Mexpr     `s.contains(n)` of an intSet = `Gzx.GoM.setContains s n`; `len(xs)` of a [][]byte
//	lexpr        -> (k11b2Lexpr)      `make([]T, n, c)` with a capacity the function never observes = `Gzx.GoM.mk3n n c`
//	massign      -> (k11b2Assign)     `xs := make([][]T, 0, c)` = no byte lists; `xs = nil` of a list of byte lists
//	return       -> fc.k11b2Return    `nil` for a result of type [][]byte
//
// Module K11c (the Aztec high-level decoder):
//	leanTypeM    -> k11b2Type         `[]bool` = `List Int` of 0 / 1 (a read is `x != 0`, as in ext_k11b.go); `[]string` = a list of byte lists
//	mexpr        -> fc.k11b2Mexpr     reads of `[]bool` elements; `tbl[i]` of a []string (`Gzx.GoM.idxLL`, checked); `s == "constant"` of
//	                                  strings; `strings.HasPrefix(s, "constant")` = `Gzx.GoM.hasPrefix`; the ABSTRACT callees below
//	massign      -> fc.k11b2Assign    `var tbl []string` / `tbl = UPPER_TABLE` (package-level []string constants as tables of byte lists);
//	                                  `result, _, e = transform.Append(encoding.NewDecoder(), result, decodedBytes)` and
//	                                  `charsetECI, e := common.GetCharacterSetECIByValue(eci)` as calls of ABSTRACT parameters
//	genFuncM     -> fc.k11b2Prepare   `if c { break }` at the top of a `switch` arm = `if !c { rest of the arm }`;
//	                                  package-level `encoding.Encoding` objects and `*CharacterSetECI` values are `Int` tokens (nil = -1):
//	                                  `DEFAULT_ENCODING`, `charsetECI.GetCharset()` = `eci_GetCharset tok`, `x == nil`
//	genFuncM     -> fc.k11b2Params    the abstract parameters in front of the ordinary ones (sorted by name)
//
// Run-time library: lean/Gzx/GoMK11b2.lean.
package main

import (
	"fmt"
	"go/ast"
	"go/constant"
	"go/token"
	"go/types"
	"strings"
)

func k11b2On() bool { return strings.HasPrefix(curModule, "K02e") || strings.HasPrefix(curModule, "K11c") }

// k11b2HasChecked: the expression contains an operation that may panic or a call (the short-circuit rule of monadic.go
// refuses those on the right of `||` / `&&`)
func (fc *fnCtx) k11b2HasChecked(e ast.Expr) bool {
	found := false
	ast.Inspect(e, func(n ast.Node) bool {
		switch x := n.(type) {
		case *ast.IndexExpr:
			found = true
		case *ast.CallExpr:
			if tv, ok := fc.p.TypesInfo.Types[x.Fun]; ok && tv.IsType() {
				return true
			}
			if id, ok := x.Fun.(*ast.Ident); ok && id.Name == "len" {
				return true
			}
			found = true
		}
		return !found
	})
	return found
}

func k11b2SplitOr(e ast.Expr) []ast.Expr {
	if p, ok := e.(*ast.ParenExpr); ok {
		return k11b2SplitOr(p.X)
	}
	if b, ok := e.(*ast.BinaryExpr); ok && b.Op == token.LOR {
		return append(k11b2SplitOr(b.X), k11b2SplitOr(b.Y)...)
	}
	return []ast.Expr{e}
}

// k11b2Stmt: statement-level rules
func (fc *fnCtx) k11b2Stmt(s ast.Stmt, rest []ast.Stmt, lvl int) (string, bool, error) {
	if !k11b2On() || fc.m == nil {
		return "", false, nil
	}
	if is, ok := s.(*ast.IfStmt); ok && is.Init == nil && is.Else == nil && len(is.Body.List) > 0 {
		if _, isRet := is.Body.List[len(is.Body.List)-1].(*ast.ReturnStmt); isRet {
			parts := k11b2SplitOr(is.Cond)
			checked := false
			for _, p := range parts[1:] {
				if fc.k11b2HasChecked(p) {
					checked = true
				}
			}
			if len(parts) > 1 && checked {
				var seq []ast.Stmt
				for _, p := range parts {
					seq = append(seq, &ast.IfStmt{If: is.If, Cond: p, Body: is.Body})
				}
				r, err := fc.mblock(append(seq, rest...), lvl)
				return r, true, err
			}
		}
	}
	// var e error
	if ds, ok := s.(*ast.DeclStmt); ok {
		if gd, ok := ds.Decl.(*ast.GenDecl); ok && gd.Tok == token.VAR && len(gd.Specs) == 1 {
			if vs, ok := gd.Specs[0].(*ast.ValueSpec); ok && len(vs.Values) == 0 && vs.Type != nil && len(vs.Names) == 1 {
				if lt, err := leanTypeM(fc.p.TypesInfo.TypeOf(vs.Type)); err == nil && lt == "List (List Int)" {
					var sb strings.Builder
					sb.WriteString(fc.flush(lvl))
					fc.declare(vs.Names[0].Name, lt)
					fmt.Fprintf(&sb, "%slet %s : List (List Int) := []\n", ind(lvl), fc.name(vs.Names[0].Name))
					r, err := fc.mblock(rest, lvl)
					if err != nil {
						return "", true, err
					}
					return sb.String() + r, true, nil
				}
				if t := fc.p.TypesInfo.TypeOf(vs.Type); t != nil && (t.String() == "error" || isErrorType(t)) {
					var sb strings.Builder
					sb.WriteString(fc.flush(lvl))
					fc.declare(vs.Names[0].Name, "Bool")
					fmt.Fprintf(&sb, "%slet %s := false\n", ind(lvl), fc.name(vs.Names[0].Name))
					r, err := fc.mblock(rest, lvl)
					if err != nil {
						return "", true, err
					}
					return sb.String() + r, true, nil
				}
			}
		}
	}
	if es, ok := s.(*ast.ExprStmt); ok {
		if call, ok := es.X.(*ast.CallExpr); ok {
			if name, ok := fc.k11b2SetAdd(call); ok {
				if _, seen := fc.locals[name]; !seen {
					return "", true, fmt.Errorf("free set %s", name)
				}
				v, err := fc.expr(call.Args[0])
				if err != nil {
					return "", true, err
				}
				var sb strings.Builder
				sb.WriteString(fc.flush(lvl))
				cur := fc.name(name)
				nn := fc.bump(name)
				fmt.Fprintf(&sb, "%slet %s := (%s ++ [%s])\n", ind(lvl), nn, cur, v)
				r, err := fc.mblock(rest, lvl)
				if err != nil {
					return "", true, err
				}
				return sb.String() + r, true, nil
			}
		}
	}
	return "", false, nil
}

// k11b2SetAdd: `s.add(n)` with s a local / parameter of type intSet
func (fc *fnCtx) k11b2SetAdd(call *ast.CallExpr) (string, bool) {
	sel, ok := call.Fun.(*ast.SelectorExpr)
	if !ok || sel.Sel.Name != "add" || len(call.Args) != 1 {
		return "", false
	}
	id, ok := sel.X.(*ast.Ident)
	if !ok || !k11b2IsIntSet(fc.p.TypesInfo.TypeOf(id)) {
		return "", false
	}
	return id.Name, true
}

func k11b2AssignedByCall(call *ast.CallExpr, assigned, whole map[string]bool) {
	if !k11b2On() || curFC == nil {
		return
	}
	if name, ok := curFC.k11b2SetAdd(call); ok {
		assigned[name] = true
		whole[name] = true
	}
}

// k11b2Prepare: alpha-rename shadowing locals
func (fc *fnCtx) k11b2Prepare(fd *ast.FuncDecl) {
	if !k11b2On() || fd.Body == nil {
		return
	}
	if strings.HasPrefix(curModule, "K11c") {
		fc.k11b2PrepareAztec(fd)
	}
	// the local variables of the function in order of declaration
	var order []types.Object
	seenObj := map[types.Object]bool{}
	note := func(id *ast.Ident) {
		if obj := fc.p.TypesInfo.Defs[id]; obj != nil {
			if _, isVar := obj.(*types.Var); isVar && !seenObj[obj] && id.Name != "_" {
				seenObj[obj] = true
				order = append(order, obj)
			}
		}
	}
	if fd.Recv != nil {
		for _, f := range fd.Recv.List {
			for _, n := range f.Names {
				note(n)
			}
		}
	}
	for _, f := range fd.Type.Params.List {
		for _, n := range f.Names {
			note(n)
		}
	}
	ast.Inspect(fd.Body, func(n ast.Node) bool {
		if id, ok := n.(*ast.Ident); ok {
			note(id)
		}
		return true
	})
	rename := map[types.Object]string{}
	count := map[string]int{}
	for _, obj := range order {
		count[obj.Name()]++
		if k := count[obj.Name()]; k > 1 {
			rename[obj] = fmt.Sprintf("%s_s%d", obj.Name(), k)
		}
	}
	if len(rename) == 0 {
		return
	}
	ast.Inspect(fd.Body, func(n ast.Node) bool {
		if id, ok := n.(*ast.Ident); ok {
			if obj := fc.p.TypesInfo.Defs[id]; obj != nil {
				if nn, ok := rename[obj]; ok {
					id.Name = nn
				}
			} else if obj := fc.p.TypesInfo.Uses[id]; obj != nil {
				if nn, ok := rename[obj]; ok {
					id.Name = nn
				}
			}
		}
		return true
	})
}

// k11b2Proj: component k of an n-tuple value t
func k11b2Proj(t string, k, n int) string {
	if n <= 1 {
		return t
	}
	pr := t + strings.Repeat(".2", k)
	if k < n-1 {
		pr += ".1"
	}
	return pr
}

// k11b2LhsType: Lean type of an assignment target
func (fc *fnCtx) k11b2LhsType(id *ast.Ident) (string, error) {
	var t types.Type
	if obj := fc.p.TypesInfo.Defs[id]; obj != nil {
		t = obj.Type()
	} else if obj := fc.p.TypesInfo.Uses[id]; obj != nil {
		t = obj.Type()
	}
	lt, err := leanTypeM(t)
	if err != nil {
		if t != nil && isErrorType(t) {
			return "Bool", nil
		}
		return "", err
	}
	return lt, nil
}

// k11b2Assign: assignment rules
func (fc *fnCtx) k11b2Assign(x *ast.AssignStmt, rest []ast.Stmt, lvl int) (string, bool, error) {
	if !k11b2On() || fc.m == nil {
		return "", false, nil
	}
	cont := func(prefix string) (string, bool, error) {
		r, err := fc.mblock(rest, lvl)
		if err != nil {
			return "", true, err
		}
		return prefix + r, true, nil
	}
	if len(x.Rhs) == 1 {
		if call, ok := x.Rhs[0].(*ast.CallExpr); ok {
			// results of a translated method that writes its receiver
			if recv, mi, ok := fc.methodCallee(call); ok && (len(mi.outs) > 0 || mi.nres > 1) {
				if x.Tok != token.DEFINE && x.Tok != token.ASSIGN {
					return "", true, fmt.Errorf("operator assignment from a method call")
				}
				if len(x.Lhs) != mi.nres {
					return "", true, fmt.Errorf("call of %s: %d results expected", mi.lean, mi.nres)
				}
				text, err := fc.methodCallText(recv, mi, call)
				if err != nil {
					return "", true, err
				}
				t := fc.bind(text)
				var sb strings.Builder
				sb.WriteString(fc.flush(lvl))
				total := mi.nres + len(mi.outs)
				for k, l := range x.Lhs {
					id, ok := l.(*ast.Ident)
					if !ok {
						return "", true, fmt.Errorf("assignment to non-local")
					}
					if id.Name == "_" {
						continue
					}
					lt, err := fc.k11b2LhsType(id)
					if err != nil {
						return "", true, err
					}
					fc.declare(id.Name, lt)
					fmt.Fprintf(&sb, "%slet %s := %s\n", ind(lvl), fc.name(id.Name), k11b2Proj(t, k, total))
				}
				for k, f := range mi.outs {
					key := recv + "_" + f
					if _, seen := fc.locals[key]; !seen {
						return "", true, fmt.Errorf("method %s writes %s, which is not a translated field", mi.lean, key)
					}
					nn := fc.bump(key)
					fmt.Fprintf(&sb, "%slet %s := %s\n", ind(lvl), nn, k11b2Proj(t, mi.nres+k, total))
				}
				return cont(sb.String())
			}
		}
	}
	if strings.HasPrefix(curModule, "K11c") {
		if s, handled, err := fc.k11b2AssignAztec(x, rest, lvl); handled {
			return s, true, err
		}
	}
	// xs := make([][]T, 0, c) / xs = nil of a list of byte lists
	if len(x.Lhs) == 1 && len(x.Rhs) == 1 && (x.Tok == token.ASSIGN || x.Tok == token.DEFINE) {
		if lid, ok := x.Lhs[0].(*ast.Ident); ok && lid.Name != "_" {
			if lt, err := fc.k11b2LhsType(lid); err == nil && lt == "List (List Int)" {
				val := ""
				if rid, ok := x.Rhs[0].(*ast.Ident); ok && rid.Name == "nil" {
					val = "[]"
				}
				if call, ok := x.Rhs[0].(*ast.CallExpr); ok {
					if fid, ok := call.Fun.(*ast.Ident); ok && fid.Name == "make" && len(call.Args) >= 2 {
						if tv, ok := fc.p.TypesInfo.Types[call.Args[1]]; ok && tv.Value != nil && constant.Sign(tv.Value) == 0 {
							capOK := len(call.Args) == 2
							if len(call.Args) == 3 {
								if cv, ok := fc.p.TypesInfo.Types[call.Args[2]]; ok && cv.Value != nil && constant.Sign(cv.Value) >= 0 {
									capOK = true
								}
							}
							if capOK {
								val = "[]"
							}
						}
					}
				}
				if val != "" {
					var sb strings.Builder
					sb.WriteString(fc.flush(lvl))
					fc.declare(lid.Name, lt)
					fmt.Fprintf(&sb, "%slet %s : List (List Int) := %s\n", ind(lvl), fc.name(lid.Name), val)
					return cont(sb.String())
				}
			}
		}
	}
	// xs = append(xs, ys) on a list of byte lists
	if len(x.Lhs) == 1 && len(x.Rhs) == 1 && x.Tok == token.ASSIGN {
		if call, ok := x.Rhs[0].(*ast.CallExpr); ok {
			if fid, ok := call.Fun.(*ast.Ident); ok && fid.Name == "append" && len(call.Args) == 2 && call.Ellipsis == token.NoPos {
				if lt, err := leanTypeM(fc.p.TypesInfo.TypeOf(call)); err == nil && lt == "List (List Int)" {
					lid, ok1 := x.Lhs[0].(*ast.Ident)
					a0, ok2 := call.Args[0].(*ast.Ident)
					if !ok1 || !ok2 || lid.Name != a0.Name {
						return "", true, fmt.Errorf("append on a list of lists is supported only as `x = append(x, ys)`")
					}
					if _, seen := fc.locals[lid.Name]; !seen {
						return "", true, fmt.Errorf("free identifier %s", lid.Name)
					}
					ys, err := fc.lexpr(call.Args[1])
					if err != nil {
						return "", true, err
					}
					var sb strings.Builder
					sb.WriteString(fc.flush(lvl))
					cur := fc.name(lid.Name)
					nn := fc.bump(lid.Name)
					fmt.Fprintf(&sb, "%slet %s := (%s ++ [%s])\n", ind(lvl), nn, cur, ys)
					return cont(sb.String())
				}
			}
		}
	}
	// str, e := charmap.ISO8859_1.NewDecoder().Bytes(bs)
	if len(x.Lhs) == 2 && len(x.Rhs) == 1 && x.Tok == token.DEFINE {
		if call, ok := x.Rhs[0].(*ast.CallExpr); ok && len(call.Args) == 1 {
			if sel, ok := call.Fun.(*ast.SelectorExpr); ok && sel.Sel.Name == "Bytes" {
				if in, ok := sel.X.(*ast.CallExpr); ok && len(in.Args) == 0 {
					if isel, ok := in.Fun.(*ast.SelectorExpr); ok && isel.Sel.Name == "NewDecoder" {
						if cs, ok := isel.X.(*ast.SelectorExpr); ok && cs.Sel.Name == "ISO8859_1" {
							if pid, ok := cs.X.(*ast.Ident); ok {
								if pn, ok := fc.p.TypesInfo.Uses[pid].(*types.PkgName); ok && pn.Imported().Path() == "golang.org/x/text/encoding/charmap" {
									bs, err := fc.lexpr(call.Args[0])
									if err != nil {
										return "", true, err
									}
									k11b2NeedLib(fc.m.module)
									var sb strings.Builder
									sb.WriteString(fc.flush(lvl))
									if id, ok := x.Lhs[0].(*ast.Ident); ok && id.Name != "_" {
										fc.declare(id.Name, "List Int")
										fmt.Fprintf(&sb, "%slet %s := (Gzx.GoM.latin1Utf8 %s)\n", ind(lvl), fc.name(id.Name), bs)
									}
									if id, ok := x.Lhs[1].(*ast.Ident); ok && id.Name != "_" {
										fc.declare(id.Name, "Bool")
										fmt.Fprintf(&sb, "%slet %s := false\n", ind(lvl), fc.name(id.Name))
									}
									return cont(sb.String())
								}
							}
						}
					}
				}
			}
		}
	}
	return "", false, nil
}

func k11b2NeedLib(module string) {
	for _, i := range extraImports[module] {
		if i == "Gzx.GoMK11b2" {
			return
		}
	}
	extraImports[module] = append(extraImports[module], "Gzx.GoMK11b2")
}

// ---------- types ----------

func k11b2IsIntSet(t types.Type) bool {
	if t == nil {
		return false
	}
	nt, ok := t.(*types.Named)
	if !ok || nt.Obj().Pkg() == nil {
		return false
	}
	return nt.Obj().Name() == "intSet" && relPkg(nt.Obj().Pkg().Path()) == "datamatrix/decoder"
}

func k11b2Type(t types.Type) (string, bool) {
	if !k11b2On() || t == nil {
		return "", false
	}
	if k11b2IsIntSet(t) {
		return "List Int", true
	}
	if !strings.HasPrefix(curModule, "K11c") {
		return "", false
	}
	if k11bIsBoolSlice(t) {
		return "List Int", true
	}
	if sl, ok := t.Underlying().(*types.Slice); ok {
		if b, ok := sl.Elem().Underlying().(*types.Basic); ok && b.Info()&types.IsString != 0 {
			return "List (List Int)", true
		}
	}
	if k11b2IsToken(t) {
		return "Int", true
	}
	return "", false
}

// k11b2IsToken: object types the Aztec decoder only passes around
func k11b2IsToken(t types.Type) bool {
	if t == nil {
		return false
	}
	switch t.String() {
	case "golang.org/x/text/encoding.Encoding", "*github.com/makiuchi-d/gozxing/common.CharacterSetECI":
		return true
	}
	return false
}

// ---------- list-valued expressions ----------

// k11b2PkgCall: `pkg.Name(args)` of an imported package
func (fc *fnCtx) k11b2PkgCall(call *ast.CallExpr) (string, bool) {
	sel, ok := call.Fun.(*ast.SelectorExpr)
	if !ok {
		return "", false
	}
	pid, ok := sel.X.(*ast.Ident)
	if !ok {
		return "", false
	}
	pn, ok := fc.p.TypesInfo.Uses[pid].(*types.PkgName)
	if !ok {
		return "", false
	}
	return pn.Imported().Path() + "." + sel.Sel.Name, true
}

func (fc *fnCtx) k11b2Lexpr(ex ast.Expr) (string, bool, error) {
	if !k11b2On() || fc.m == nil {
		return "", false, nil
	}
	if strings.HasPrefix(curModule, "K11c") {
		if s, handled, err := fc.k11b2Lookup(ex); handled {
			return s, true, err
		}
	}
	if cl, ok := ex.(*ast.CompositeLit); ok && len(cl.Elts) == 0 {
		if lt, err := leanTypeM(fc.p.TypesInfo.TypeOf(cl)); err == nil && lt == "List Int" {
			return "[]", true, nil
		}
		return "", false, nil
	}
	if se, ok := ex.(*ast.SliceExpr); ok && !se.Slice3 {
		t := fc.p.TypesInfo.TypeOf(se.X)
		if _, isSlice := t.Underlying().(*types.Slice); !isSlice {
			return "", false, nil
		}
		if lt, err := leanTypeM(t); err != nil || lt != "List Int" {
			return "", false, nil
		}
		base, err := fc.lexpr(se.X)
		if err != nil {
			return "", true, err
		}
		lo, hi := "0", "(Gzx.GoM.len "+base+")"
		if se.Low != nil {
			if lo, err = fc.expr(se.Low); err != nil {
				return "", true, err
			}
		}
		if se.High != nil {
			if hi, err = fc.expr(se.High); err != nil {
				return "", true, err
			}
		}
		return fc.bind(fmt.Sprintf("Gzx.GoM.slice %s %s %s", base, lo, hi)), true, nil
	}
	call, ok := ex.(*ast.CallExpr)
	if !ok {
		return "", false, nil
	}
	// string(rune(c)) of a byte
	if tv, ok := fc.p.TypesInfo.Types[call.Fun]; ok && tv.IsType() && len(call.Args) == 1 {
		if b, ok := tv.Type.Underlying().(*types.Basic); ok && b.Info()&types.IsString != 0 {
			if in, ok := call.Args[0].(*ast.CallExpr); ok && len(in.Args) == 1 {
				if itv, ok := fc.p.TypesInfo.Types[in.Fun]; ok && itv.IsType() {
					if ib, ok := itv.Type.Underlying().(*types.Basic); ok && ib.Kind() == types.Int32 && unsignedBits(fc.p.TypesInfo.TypeOf(in.Args[0])) == 8 {
						v, err := fc.expr(in.Args[0])
						if err != nil {
							return "", true, err
						}
						k11b2NeedLib(fc.m.module)
						return "(Gzx.GoM.utf8Byte " + v + ")", true, nil
					}
				}
			}
		}
	}
	// conversions []byte(<string>)
	if tv, ok := fc.p.TypesInfo.Types[call.Fun]; ok && tv.IsType() && len(call.Args) == 1 {
		if lt, err := leanTypeM(tv.Type); err != nil || lt != "List Int" {
			return "", false, nil
		}
		if atv, ok := fc.p.TypesInfo.Types[call.Args[0]]; ok && atv.Value != nil && atv.Value.Kind() == constant.String {
			return intLitList(stringBytes(constant.StringVal(atv.Value))), true, nil
		}
		if inner, ok := call.Args[0].(*ast.CallExpr); ok {
			if full, ok := fc.k11b2PkgCall(inner); ok && full == "strconv.Itoa" && len(inner.Args) == 1 {
				v, err := fc.expr(inner.Args[0])
				if err != nil {
					return "", true, err
				}
				k11b2NeedLib(fc.m.module)
				return "(Gzx.GoM.itoa " + v + ")", true, nil
			}
		}
		// []byte(x) of a slice / string value: the same list
		s, err := fc.lexpr(call.Args[0])
		return s, true, err
	}
	if id, ok := call.Fun.(*ast.Ident); ok && id.Name == "make" && len(call.Args) == 3 {
		if _, isBuiltin := fc.p.TypesInfo.Uses[id].(*types.Builtin); !isBuiltin {
			return "", false, nil
		}
		if lt, err := leanTypeM(fc.p.TypesInfo.TypeOf(call)); err != nil || lt != "List Int" {
			return "", false, nil
		}
		n, err := fc.expr(call.Args[1])
		if err != nil {
			return "", true, err
		}
		c, err := fc.expr(call.Args[2])
		if err != nil {
			return "", true, err
		}
		k11b2NeedLib(fc.m.module)
		return fc.bind(fmt.Sprintf("Gzx.GoM.mk3n %s %s", n, c)), true, nil
	}
	if id, ok := call.Fun.(*ast.Ident); ok && id.Name == "append" {
		if _, isBuiltin := fc.p.TypesInfo.Uses[id].(*types.Builtin); !isBuiltin {
			return "", false, nil
		}
		if lt, err := leanTypeM(fc.p.TypesInfo.TypeOf(call)); err != nil || lt != "List Int" {
			return "", false, nil
		}
		if len(call.Args) < 1 {
			return "", true, fmt.Errorf("append without arguments")
		}
		base, err := fc.lexpr(call.Args[0])
		if err != nil {
			return "", true, err
		}
		if call.Ellipsis != token.NoPos {
			if len(call.Args) != 2 {
				return "", true, fmt.Errorf("append with ... and %d arguments", len(call.Args))
			}
			ys, err := fc.lexpr(call.Args[1])
			if err != nil {
				return "", true, err
			}
			return "(" + base + " ++ " + ys + ")", true, nil
		}
		var vs []string
		for _, a := range call.Args[1:] {
			v, err := fc.expr(a)
			if err != nil {
				return "", true, err
			}
			vs = append(vs, v)
		}
		return "(" + base + " ++ [" + strings.Join(vs, ", ") + "])", true, nil
	}
	return "", false, nil
}

// k11b2Used: a loop body that returns mentions every out variable (the `.ret` value carries them)
func (fc *fnCtx) k11b2Used(nodes []ast.Node, used map[string]bool) {
	fc.k11b2UsedAbs(nodes, used)
	if !k11b2On() || fc.m == nil || len(fc.m.outVars) == 0 {
		return
	}
	hasRet := false
	for _, nd := range nodes {
		ast.Inspect(nd, func(n ast.Node) bool {
			switch n.(type) {
			case *ast.FuncLit:
				return false
			case *ast.ReturnStmt:
				hasRet = true
			}
			return !hasRet
		})
	}
	if hasRet {
		for _, o := range fc.m.outVars {
			used[o] = true
		}
	}
}

// k11b2UsedAbs: the abstract parameters a loop body mentions
func (fc *fnCtx) k11b2UsedAbs(nodes []ast.Node, used map[string]bool) {
	if !strings.HasPrefix(curModule, "K11c") || fc.m == nil {
		return
	}
	for _, nd := range nodes {
		ast.Inspect(nd, func(n ast.Node) bool {
			if name, _, ok := fc.k11b2AbsOf(n); ok {
				used[name] = true
			}
			return true
		})
	}
}

// ---------- the mode loop as a view ----------

func (fc *fnCtx) k11b2TypeExpr(t types.Type, pos token.Pos) ast.Expr {
	id := &ast.Ident{Name: "k11b2_type", NamePos: pos}
	fc.p.TypesInfo.Types[id] = types.TypeAndValue{Type: t}
	return id
}

var k11b2Viewed = map[*ast.FuncDecl]bool{}

// k11b2View: see the header
func (fc *fnCtx) k11b2View(fd *ast.FuncDecl) {
	if !strings.HasPrefix(curModule, "K02e") || fd.Recv != nil || fd.Name.Name != "DecodedBitStreamParser_decode" || fd.Body == nil || k11b2Viewed[fd] {
		return
	}
	// 1. bits := common.NewBitSource(bytes)  ->  parameter
	var bitsObj types.Object
	var rest []ast.Stmt
	for _, st := range fd.Body.List {
		if as, ok := st.(*ast.AssignStmt); ok && as.Tok == token.DEFINE && len(as.Lhs) == 1 && len(as.Rhs) == 1 && bitsObj == nil {
			if call, ok := as.Rhs[0].(*ast.CallExpr); ok {
				if full, ok := fc.k11b2PkgCall(call); ok && strings.HasSuffix(full, "/common.NewBitSource") {
					if id, ok := as.Lhs[0].(*ast.Ident); ok {
						bitsObj = fc.p.TypesInfo.Defs[id]
						continue
					}
				}
			}
		}
		rest = append(rest, st)
	}
	if bitsObj == nil {
		return
	}
	// 2. the last statement: return common.NewDecoderResultWithSymbologyModifier(bytes, string(result), byteSegments, "", symbologyModifier), nil
	last, ok := rest[len(rest)-1].(*ast.ReturnStmt)
	if !ok || len(last.Results) != 2 {
		return
	}
	call, ok := last.Results[0].(*ast.CallExpr)
	if !ok || len(call.Args) != 5 {
		return
	}
	conv, ok := call.Args[1].(*ast.CallExpr) // string(result)
	if !ok || len(conv.Args) != 1 {
		return
	}
	resultE, segsE, modE := conv.Args[0], call.Args[2], call.Args[4]
	tRes, tSegs, tMod := fc.p.TypesInfo.TypeOf(resultE), fc.p.TypesInfo.TypeOf(segsE), fc.p.TypesInfo.TypeOf(modE)
	if tRes == nil || tSegs == nil || tMod == nil {
		return
	}
	k11b2Viewed[fd] = true
	fd.Body.List = rest
	pid := &ast.Ident{Name: bitsObj.Name(), NamePos: fd.Pos()}
	fc.p.TypesInfo.Defs[pid] = bitsObj
	fd.Type.Params.List = append([]*ast.Field{{Names: []*ast.Ident{pid}, Type: fc.k11b2TypeExpr(bitsObj.Type(), fd.Pos())}}, fd.Type.Params.List...)
	errT := fc.p.TypesInfo.TypeOf(fd.Type.Results.List[len(fd.Type.Results.List)-1].Type)
	fd.Type.Results.List = []*ast.Field{
		{Type: fc.k11b2TypeExpr(tRes, fd.Pos())}, {Type: fc.k11b2TypeExpr(tSegs, fd.Pos())}, {Type: fc.k11b2TypeExpr(tMod, fd.Pos())},
		{Type: fc.k11b2TypeExpr(errT, fd.Pos())},
	}
	mkNil := func(t types.Type, pos token.Pos) ast.Expr {
		id := &ast.Ident{Name: "nil", NamePos: pos}
		fc.p.TypesInfo.Types[id] = types.TypeAndValue{Type: t}
		fc.p.TypesInfo.Uses[id] = types.Universe.Lookup("nil")
		return id
	}
	mkZero := func(pos token.Pos) ast.Expr {
		lit := &ast.BasicLit{Kind: token.INT, Value: "0", ValuePos: pos}
		fc.p.TypesInfo.Types[lit] = types.TypeAndValue{Type: tMod, Value: constant.MakeInt64(0)}
		return lit
	}
	ast.Inspect(fd.Body, func(n ast.Node) bool {
		switch x := n.(type) {
		case *ast.FuncLit:
			return false
		case *ast.ReturnStmt:
			if len(x.Results) != 2 {
				return true
			}
			if x == last {
				x.Results = []ast.Expr{resultE, segsE, modE, x.Results[1]}
			} else {
				x.Results = []ast.Expr{mkNil(tRes, x.Pos()), mkNil(tSegs, x.Pos()), mkZero(x.Pos()), x.Results[1]}
			}
		}
		return true
	})
}

// k11b2Return: `nil` for a result that is a list of byte lists
func (fc *fnCtx) k11b2Return(ri int, r ast.Expr) ([]string, bool, error) {
	if !k11b2On() || fc.m == nil {
		return nil, false, nil
	}
	if id, ok := r.(*ast.Ident); ok && id.Name == "nil" {
		if lt, err := leanTypeM(fc.p.TypesInfo.TypeOf(r)); err == nil && lt == "List (List Int)" {
			return []string{"[]"}, true, nil
		}
	}
	return nil, false, nil
}

// k11b2Mexpr: expression forms
func (fc *fnCtx) k11b2Mexpr(ex ast.Expr) (string, bool, error) {
	if !k11b2On() || fc.m == nil {
		return "", false, nil
	}
	if strings.HasPrefix(curModule, "K11c") {
		if s, handled, err := fc.k11b2MexprAztec(ex); handled {
			return s, true, err
		}
	}
	if call, ok := ex.(*ast.CallExpr); ok {
		// len(xs) of a list of byte lists
		if id, ok := call.Fun.(*ast.Ident); ok && id.Name == "len" && len(call.Args) == 1 {
			if a, ok := call.Args[0].(*ast.Ident); ok {
				if _, seen := fc.locals[a.Name]; seen && fc.m.ltype[a.Name] == "List (List Int)" {
					return "(Int.ofNat (List.length " + fc.name(a.Name) + "))", true, nil
				}
			}
		}
		if sel, ok := call.Fun.(*ast.SelectorExpr); ok && sel.Sel.Name == "contains" && len(call.Args) == 1 {
			if id, ok := sel.X.(*ast.Ident); ok && k11b2IsIntSet(fc.p.TypesInfo.TypeOf(id)) {
				s, err := fc.lexpr(id)
				if err != nil {
					return "", true, err
				}
				n0 := len(fc.m.pre)
				v, err := fc.expr(call.Args[0])
				if err != nil {
					return "", true, err
				}
				if len(fc.m.pre) != n0 {
					return "", true, fmt.Errorf("checked operation in the argument of contains")
				}
				k11b2NeedLib(fc.m.module)
				return "(Gzx.GoM.setContains " + s + " " + v + ")", true, nil
			}
		}
	}
	return "", false, nil
}

// ---------- module K11c: the Aztec high-level decoder ----------

type k11b2EnvParam struct{ name, lt string }

var k11b2Env = map[*fnCtx][]k11b2EnvParam{}

func (fc *fnCtx) k11b2Declare(name, lt string) {
	for _, e := range k11b2Env[fc] {
		if e.name == name {
			return
		}
	}
	fc.declare(name, lt)
	fc.paramNames = append(fc.paramNames, name)
	k11b2Env[fc] = append(k11b2Env[fc], k11b2EnvParam{name, lt})
}

// k11b2Params: the abstract parameters go in front of the ordinary ones
func (fc *fnCtx) k11b2Params(params []string) []string {
	env := append([]k11b2EnvParam{}, k11b2Env[fc]...)
	if len(env) == 0 {
		return params
	}
	for i := 0; i < len(env); i++ {
		for j := i + 1; j < len(env); j++ {
			if env[j].name < env[i].name {
				env[i], env[j] = env[j], env[i]
			}
		}
	}
	var out []string
	for _, e := range env {
		out = append(out, fmt.Sprintf("(%s : %s)", leanIdent(e.name), e.lt))
	}
	return append(out, params...)
}

// k11b2StringTable: a package-level []string constant as a table of byte lists
func (fc *fnCtx) k11b2StringTable(id *ast.Ident) (string, bool) {
	obj, ok := fc.p.TypesInfo.Uses[id].(*types.Var)
	if !ok || obj.Pkg() == nil || obj.Parent() != obj.Pkg().Scope() || assignedAnywhere(fc.p, obj) {
		return "", false
	}
	op := pkgs[obj.Pkg().Path()]
	if op == nil {
		return "", false
	}
	init, ip := findVarInit(op, obj.Name())
	cl, ok := init.(*ast.CompositeLit)
	if !ok {
		return "", false
	}
	var rows []string
	for _, el := range cl.Elts {
		tv, ok := ip.TypesInfo.Types[el]
		if !ok || tv.Value == nil || tv.Value.Kind() != constant.String {
			return "", false
		}
		rows = append(rows, intLitList(stringBytes(constant.StringVal(tv.Value))))
	}
	ln := "tbl_" + obj.Name()
	if !fc.m.tableSeen[ln] && !moduleTables[fc.m.module+"|"+ln] {
		fc.m.tableSeen[ln] = true
		fc.m.tables = append(fc.m.tables, fmt.Sprintf("/-- package-level table %s (inlined: the bytes of every string) -/\ndef %s : List (List Int) := [%s]\n",
			obj.Name(), ln, strings.Join(rows, ", ")))
	}
	return ln, true
}

// k11b2LL: a list-of-byte-lists valued expression
func (fc *fnCtx) k11b2LL(e ast.Expr) (string, bool) {
	id, ok := e.(*ast.Ident)
	if !ok {
		return "", false
	}
	if _, seen := fc.locals[id.Name]; seen && fc.m.ltype[id.Name] == "List (List Int)" {
		return fc.name(id.Name), true
	}
	return fc.k11b2StringTable(id)
}

func (fc *fnCtx) k11b2MexprAztec(ex ast.Expr) (string, bool, error) {
	switch x := ex.(type) {
	case *ast.Ident:
		if x.Name == "k11b2_err" {
			return "true", true, nil
		}
		// package-level object token
		if obj, ok := fc.p.TypesInfo.Uses[x].(*types.Var); ok && obj.Pkg() != nil && obj.Parent() == obj.Pkg().Scope() && k11b2IsToken(obj.Type()) {
			fc.k11b2Declare(x.Name, "Int")
			return fc.name(x.Name), true, nil
		}
	case *ast.IndexExpr:
		t := fc.p.TypesInfo.TypeOf(x.X)
		if k11bIsBoolSlice(t) {
			base, err := fc.lexpr(x.X)
			if err != nil {
				return "", true, err
			}
			i, err := fc.expr(x.Index)
			if err != nil {
				return "", true, err
			}
			return "(" + fc.bind(fmt.Sprintf("Gzx.GoM.idx %s %s", base, i)) + " != 0)", true, nil
		}
	case *ast.BinaryExpr:
		if x.Op == token.EQL || x.Op == token.NEQ {
			// token == nil
			if id, ok := x.Y.(*ast.Ident); ok && id.Name == "nil" && k11b2IsToken(fc.p.TypesInfo.TypeOf(x.X)) {
				a, err := fc.expr(x.X)
				if err != nil {
					return "", true, err
				}
				op := "=="
				if x.Op == token.NEQ {
					op = "!="
				}
				return fmt.Sprintf("(%s %s (-1))", a, op), true, nil
			}
			// string comparison
			tx := fc.p.TypesInfo.TypeOf(x.X)
			if b, ok := tx.Underlying().(*types.Basic); ok && b.Info()&types.IsString != 0 {
				a, err := fc.lexpr(x.X)
				if err != nil {
					return "", true, err
				}
				c, err := fc.lexpr(x.Y)
				if err != nil {
					return "", true, err
				}
				op := "=="
				if x.Op == token.NEQ {
					op = "!="
				}
				return fmt.Sprintf("(%s %s %s)", a, op, c), true, nil
			}
		}
	case *ast.CallExpr:
		if full, ok := fc.k11b2PkgCall(x); ok && full == "strings.HasPrefix" && len(x.Args) == 2 {
			a, err := fc.lexpr(x.Args[0])
			if err != nil {
				return "", true, err
			}
			c, err := fc.lexpr(x.Args[1])
			if err != nil {
				return "", true, err
			}
			k11b2NeedLib(fc.m.module)
			return fmt.Sprintf("(Gzx.GoM.hasPrefix %s %s)", a, c), true, nil
		}
		// charsetECI.GetCharset()
		if sel, ok := x.Fun.(*ast.SelectorExpr); ok && sel.Sel.Name == "GetCharset" && len(x.Args) == 0 && k11b2IsToken(fc.p.TypesInfo.TypeOf(sel.X)) {
			a, err := fc.expr(sel.X)
			if err != nil {
				return "", true, err
			}
			fc.k11b2Declare("eci_GetCharset", "Int → Int")
			return fmt.Sprintf("(%s %s)", fc.name("eci_GetCharset"), a), true, nil
		}
	}
	return "", false, nil
}

// k11b2Lookup: `tbl[i]` of a list of byte lists, as a list-valued expression
func (fc *fnCtx) k11b2Lookup(ex ast.Expr) (string, bool, error) {
	ix, ok := ex.(*ast.IndexExpr)
	if !ok {
		return "", false, nil
	}
	base, ok := fc.k11b2LL(ix.X)
	if !ok {
		return "", false, nil
	}
	i, err := fc.expr(ix.Index)
	if err != nil {
		return "", true, err
	}
	k11b2NeedLib(fc.m.module)
	return fc.bind(fmt.Sprintf("Gzx.GoM.idxLL %s %s", base, i)), true, nil
}

func (fc *fnCtx) k11b2AssignAztec(x *ast.AssignStmt, rest []ast.Stmt, lvl int) (string, bool, error) {
	cont := func(prefix string) (string, bool, error) {
		r, err := fc.mblock(rest, lvl)
		if err != nil {
			return "", true, err
		}
		return prefix + r, true, nil
	}
	// tbl = UPPER_TABLE
	if len(x.Lhs) == 1 && len(x.Rhs) == 1 && x.Tok == token.ASSIGN {
		if lid, ok := x.Lhs[0].(*ast.Ident); ok {
			if _, seen := fc.locals[lid.Name]; seen && fc.m.ltype[lid.Name] == "List (List Int)" {
				if rid, ok := x.Rhs[0].(*ast.Ident); ok {
					if tb, ok := fc.k11b2StringTable(rid); ok {
						var sb strings.Builder
						sb.WriteString(fc.flush(lvl))
						nn := fc.bump(lid.Name)
						fmt.Fprintf(&sb, "%slet %s : List (List Int) := %s\n", ind(lvl), nn, tb)
						return cont(sb.String())
					}
				}
			}
		}
	}
	if len(x.Rhs) != 1 {
		return "", false, nil
	}
	call, ok := x.Rhs[0].(*ast.CallExpr)
	if !ok {
		return "", false, nil
	}
	full, ok := fc.k11b2PkgCall(call)
	if !ok {
		return "", false, nil
	}
	bindTo := func(l ast.Expr, lt, val string, sb *strings.Builder) error {
		id, ok := l.(*ast.Ident)
		if !ok {
			return fmt.Errorf("assignment to non-local")
		}
		if id.Name == "_" {
			return nil
		}
		if x.Tok == token.DEFINE {
			fc.declare(id.Name, lt)
			fmt.Fprintf(sb, "%slet %s := %s\n", ind(lvl), fc.name(id.Name), val)
			return nil
		}
		if _, seen := fc.locals[id.Name]; !seen {
			return fmt.Errorf("free identifier %s", id.Name)
		}
		nn := fc.bump(id.Name)
		fmt.Fprintf(sb, "%slet %s := %s\n", ind(lvl), nn, val)
		return nil
	}
	switch {
	case full == "golang.org/x/text/transform.Append" && len(call.Args) == 3 && len(x.Lhs) == 3:
		// result, _, e = transform.Append(encoding.NewDecoder(), result, decodedBytes)
		dec, ok := call.Args[0].(*ast.CallExpr)
		if !ok || len(dec.Args) != 0 {
			return "", true, fmt.Errorf("transform.Append: the transformer is not <encoding>.NewDecoder()")
		}
		dsel, ok := dec.Fun.(*ast.SelectorExpr)
		if !ok || dsel.Sel.Name != "NewDecoder" || !k11b2IsToken(fc.p.TypesInfo.TypeOf(dsel.X)) {
			return "", true, fmt.Errorf("transform.Append: the transformer is not <encoding>.NewDecoder()")
		}
		enc, err := fc.expr(dsel.X)
		if err != nil {
			return "", true, err
		}
		dst, err := fc.lexpr(call.Args[1])
		if err != nil {
			return "", true, err
		}
		src, err := fc.lexpr(call.Args[2])
		if err != nil {
			return "", true, err
		}
		fc.k11b2Declare("transform_Append", "Int → List Int → List Int → Gzx.Res (List Int × Bool)")
		t := fc.bind(fmt.Sprintf("%s %s %s %s", fc.name("transform_Append"), enc, dst, src))
		var sb strings.Builder
		sb.WriteString(fc.flush(lvl))
		if err := bindTo(x.Lhs[0], "List Int", t+".1", &sb); err != nil {
			return "", true, err
		}
		if id, ok := x.Lhs[1].(*ast.Ident); !ok || id.Name != "_" {
			return "", true, fmt.Errorf("transform.Append: the byte count must be dropped")
		}
		if err := bindTo(x.Lhs[2], "Bool", t+".2", &sb); err != nil {
			return "", true, err
		}
		return cont(sb.String())
	case strings.HasSuffix(full, "/common.GetCharacterSetECIByValue") && len(call.Args) == 1 && len(x.Lhs) == 2:
		v, err := fc.expr(call.Args[0])
		if err != nil {
			return "", true, err
		}
		fc.k11b2Declare("eci_ByValue", "Int → Gzx.Res (Int × Bool)")
		t := fc.bind(fmt.Sprintf("%s %s", fc.name("eci_ByValue"), v))
		var sb strings.Builder
		sb.WriteString(fc.flush(lvl))
		if err := bindTo(x.Lhs[0], "Int", t+".1", &sb); err != nil {
			return "", true, err
		}
		if err := bindTo(x.Lhs[1], "Bool", t+".2", &sb); err != nil {
			return "", true, err
		}
		return cont(sb.String())
	}
	return "", false, nil
}

// k11b2AbsOf: the abstract parameter a node stands for
func (fc *fnCtx) k11b2AbsOf(n ast.Node) (string, string, bool) {
	switch x := n.(type) {
	case *ast.CallExpr:
		if full, ok := fc.k11b2PkgCall(x); ok {
			if full == "golang.org/x/text/transform.Append" {
				return "transform_Append", "Int → List Int → List Int → Gzx.Res (List Int × Bool)", true
			}
			if strings.HasSuffix(full, "/common.GetCharacterSetECIByValue") {
				return "eci_ByValue", "Int → Gzx.Res (Int × Bool)", true
			}
		}
		if sel, ok := x.Fun.(*ast.SelectorExpr); ok && sel.Sel.Name == "GetCharset" && len(x.Args) == 0 && k11b2IsToken(fc.p.TypesInfo.TypeOf(sel.X)) {
			return "eci_GetCharset", "Int → Int", true
		}
	case *ast.Ident:
		if obj, ok := fc.p.TypesInfo.Uses[x].(*types.Var); ok && obj.Pkg() != nil && obj.Parent() == obj.Pkg().Scope() && k11b2IsToken(obj.Type()) {
			return x.Name, "Int", true
		}
	}
	return "", "", false
}

// k11b2PrepareAztec: `if c { break }` at the top level of a switch arm = `if !c { rest of the arm }`
func (fc *fnCtx) k11b2PrepareAztec(fd *ast.FuncDecl) {
	// the abstract parameters are declared before the body is translated (loop bodies take them as free variables)
	ast.Inspect(fd.Body, func(n ast.Node) bool {
		if name, lt, ok := fc.k11b2AbsOf(n); ok {
			fc.k11b2Declare(name, lt)
		}
		return true
	})
	ast.Inspect(fd.Body, func(n ast.Node) bool {
		cc, ok := n.(*ast.CaseClause)
		if !ok {
			return true
		}
		for i, st := range cc.Body {
			is, ok := st.(*ast.IfStmt)
			if !ok || is.Init != nil || is.Else != nil || len(is.Body.List) != 1 {
				continue
			}
			br, ok := is.Body.List[0].(*ast.BranchStmt)
			if !ok || br.Tok != token.BREAK || br.Label != nil {
				continue
			}
			neg := &ast.UnaryExpr{Op: token.NOT, OpPos: is.Cond.Pos(), X: &ast.ParenExpr{X: is.Cond, Lparen: is.Cond.Pos(), Rparen: is.Cond.End()}}
			fc.p.TypesInfo.Types[neg] = fc.p.TypesInfo.Types[is.Cond]
			fc.p.TypesInfo.Types[neg.X] = fc.p.TypesInfo.Types[is.Cond]
			restArm := append([]ast.Stmt{}, cc.Body[i+1:]...)
			cc.Body = append(append([]ast.Stmt{}, cc.Body[:i]...), &ast.IfStmt{If: is.If, Cond: neg, Body: &ast.BlockStmt{Lbrace: is.Body.Lbrace, List: restArm, Rbrace: is.Body.Rbrace}})
			break
		}
		return true
	})
	// gozxing.NewFormatException(..) / WrapFormatException(..): the error flag
	k11bRewriteExprs(fd.Body, func(e ast.Expr) ast.Expr {
		call, ok := e.(*ast.CallExpr)
		if !ok {
			return e
		}
		if full, ok := fc.k11b2PkgCall(call); ok && (full == "github.com/makiuchi-d/gozxing.NewFormatException" || full == "github.com/makiuchi-d/gozxing.WrapFormatException") {
			for _, a := range call.Args {
				switch y := a.(type) {
				case *ast.Ident, *ast.BasicLit:
					_ = y
				case *ast.CallExpr:
					if id, ok := y.Fun.(*ast.Ident); !ok || id.Name != "len" {
						return e
					}
				default:
					return e
				}
			}
			id := &ast.Ident{Name: "k11b2_err", NamePos: call.Pos()}
			fc.p.TypesInfo.Types[id] = types.TypeAndValue{Type: types.Universe.Lookup("error").Type()}
			return id
		}
		return e
	})
}
