// Work package k11b2 — the Data Matrix bit-stream parser (module K02e) and the Aztec high-level decoder (module K11c)
// as kernels.  Everything lives in this file; monadic.go only calls the hooks below (each marked `// wp k11b2`, placed
// after the hooks of the other packages), and every hook is a no-op unless the generated module is K02e… / K11c…
// (k11b2On).
//
//	mblock       -> fc.k11b2Stmt      `if a || f(x) { …; return }` (a checked / called disjunct on the right of `||`) as
//	                                  `if a {…}; if f(x) {…}` (Go evaluates the disjuncts left to right; the body ends in a
//	                                  return) — BitSource.ReadBits needs it
//	massign      -> fc.k11b2Assign    `v, _ := bits.ReadBits(n)`: a translated method of a struct parameter that WRITES its
//	                                  receiver and has results (the results are bound, the written receiver fields rebound)
//	                                  `xs = append(xs, ys)` on a [][]byte (a list of byte lists);
//	                                  `str, e := charmap.ISO8859_1.NewDecoder().Bytes(bs)` = `(Gzx.GoM.latin1Utf8 bs, no error)` (SPECIFIED)
//	leanTypeM    -> k11b2Type         `intSet` (map[int]struct{}) is the `List Int` of the keys added, in order of insertion
//	lexpr        -> fc.k11b2Lexpr     TEXT ACCUMULATION as byte lists (value semantics: the callers of these decoders always
//	                                  continue with the returned slice): `append(x, v)` = `x ++ [v]`, `append(x, ys...)` = `x ++ ys`,
//	                                  `[]byte("constant")`, `[]byte(strconv.Itoa(v))` = `Gzx.GoM.itoa v` (SPECIFIED function),
//	                                  `string(rune(c))` of a byte c = `Gzx.GoM.utf8Byte c` (SPECIFIED: the UTF-8 encoding of U+00cc),
//	                                  `[]byte{}`, `b[lo:hi]` of a []byte within its LENGTH (`Gzx.GoM.slice`: a high bound between len
//	                                  and cap, legal in Go, is reported as a panic — no kernel theorem may need that case)
//	usedNames    -> fc.k11b2Used      a `return` inside a loop body yields the written receiver fields / slice parameters too: they
//	                                  are free variables of the body definition
//	mblock       -> fc.k11b2Stmt      `var e error` (no error: false);
//	                                  `s.add(n)` of an intSet: `s := s ++ [n]` (assignedIn3 -> k11b2AssignedByCall: the set is written,
//	                                  so a set parameter is returned after the results like a written slice parameter)
//	genFuncM     -> fc.k11b2Prepare   AST pre-pass: locals that SHADOW an outer local of the same function are renamed (`b` in
//	                                  decodeBase256Segment), the translation has one flat name space per function
//	genFuncM     -> fc.k11b2View      THE MODE LOOP `DecodedBitStreamParser_decode` is translated as a VIEW of the Go function (module K02e
//	                                  only): the local `bits := common.NewBitSource(bytes)` becomes the leading parameter
//	                                  `bits *common.BitSource` (the caller of the kernel supplies `{bytes, 0, 0}`, which is what
//	                                  NewBitSource builds), and the results are the three values the function hands to
//	                                  `common.NewDecoderResultWithSymbologyModifier` — `result`, `byteSegments`, `symbologyModifier` — plus
//	                                  the error (`return nil, e` = zero values and e).  Everything between is translated as it stands.
//	mexpr        -> fc.k11b2Mexpr     `s.contains(n)` of an intSet = `Gzx.GoM.setContains s n`; `len(xs)` of a [][]byte
//	lexpr        -> (k11b2Lexpr)      `make([]T, n, c)` with a capacity the function never observes = `Gzx.GoM.mk3n n c`
//	massign      -> (k11b2Assign)     `xs := make([][]T, 0, c)` = no byte lists; `xs = nil` of a list of byte lists
//	return       -> fc.k11b2Return    `nil` for a result of type [][]byte
//
// Run-time library: lean/Gzx/GoMK11b2.lean.
package main

import (
	"fmt"
	"go/ast"
	"go/constant"
	"go/token"
	"go/types"
	"strings"
)

func k11b2On() bool { return strings.HasPrefix(curModule, "K02e") || strings.HasPrefix(curModule, "K11c") }

// k11b2HasChecked: the expression contains an operation that may panic or a call (the short-circuit rule of monadic.go
// refuses those on the right of `||` / `&&`)
func (fc *fnCtx) k11b2HasChecked(e ast.Expr) bool {
	found := false
	ast.Inspect(e, func(n ast.Node) bool {
		switch x := n.(type) {
		case *ast.IndexExpr:
			found = true
		case *ast.CallExpr:
			if tv, ok := fc.p.TypesInfo.Types[x.Fun]; ok && tv.IsType() {
				return true
			}
			if id, ok := x.Fun.(*ast.Ident); ok && id.Name == "len" {
				return true
			}
			found = true
		}
		return !found
	})
	return found
}

func k11b2SplitOr(e ast.Expr) []ast.Expr {
	if p, ok := e.(*ast.ParenExpr); ok {
		return k11b2SplitOr(p.X)
	}
	if b, ok := e.(*ast.BinaryExpr); ok && b.Op == token.LOR {
		return append(k11b2SplitOr(b.X), k11b2SplitOr(b.Y)...)
	}
	return []ast.Expr{e}
}

// k11b2Stmt: statement-level rules
func (fc *fnCtx) k11b2Stmt(s ast.Stmt, rest []ast.Stmt, lvl int) (string, bool, error) {
	if !k11b2On() || fc.m == nil {
		return "", false, nil
	}
	if is, ok := s.(*ast.IfStmt); ok && is.Init == nil && is.Else == nil && len(is.Body.List) > 0 {
		if _, isRet := is.Body.List[len(is.Body.List)-1].(*ast.ReturnStmt); isRet {
			parts := k11b2SplitOr(is.Cond)
			checked := false
			for _, p := range parts[1:] {
				if fc.k11b2HasChecked(p) {
					checked = true
				}
			}
			if len(parts) > 1 && checked {
				var seq []ast.Stmt
				for _, p := range parts {
					seq = append(seq, &ast.IfStmt{If: is.If, Cond: p, Body: is.Body})
				}
				r, err := fc.mblock(append(seq, rest...), lvl)
				return r, true, err
			}
		}
	}
	// var e error
	if ds, ok := s.(*ast.DeclStmt); ok {
		if gd, ok := ds.Decl.(*ast.GenDecl); ok && gd.Tok == token.VAR && len(gd.Specs) == 1 {
			if vs, ok := gd.Specs[0].(*ast.ValueSpec); ok && len(vs.Values) == 0 && vs.Type != nil && len(vs.Names) == 1 {
				if t := fc.p.TypesInfo.TypeOf(vs.Type); t != nil && (t.String() == "error" || isErrorType(t)) {
					var sb strings.Builder
					sb.WriteString(fc.flush(lvl))
					fc.declare(vs.Names[0].Name, "Bool")
					fmt.Fprintf(&sb, "%slet %s := false\n", ind(lvl), fc.name(vs.Names[0].Name))
					r, err := fc.mblock(rest, lvl)
					if err != nil {
						return "", true, err
					}
					return sb.String() + r, true, nil
				}
			}
		}
	}
	if es, ok := s.(*ast.ExprStmt); ok {
		if call, ok := es.X.(*ast.CallExpr); ok {
			if name, ok := fc.k11b2SetAdd(call); ok {
				if _, seen := fc.locals[name]; !seen {
					return "", true, fmt.Errorf("free set %s", name)
				}
				v, err := fc.expr(call.Args[0])
				if err != nil {
					return "", true, err
				}
				var sb strings.Builder
				sb.WriteString(fc.flush(lvl))
				cur := fc.name(name)
				nn := fc.bump(name)
				fmt.Fprintf(&sb, "%slet %s := (%s ++ [%s])\n", ind(lvl), nn, cur, v)
				r, err := fc.mblock(rest, lvl)
				if err != nil {
					return "", true, err
				}
				return sb.String() + r, true, nil
			}
		}
	}
	return "", false, nil
}

// k11b2SetAdd: `s.add(n)` with s a local / parameter of type intSet
func (fc *fnCtx) k11b2SetAdd(call *ast.CallExpr) (string, bool) {
	sel, ok := call.Fun.(*ast.SelectorExpr)
	if !ok || sel.Sel.Name != "add" || len(call.Args) != 1 {
		return "", false
	}
	id, ok := sel.X.(*ast.Ident)
	if !ok || !k11b2IsIntSet(fc.p.TypesInfo.TypeOf(id)) {
		return "", false
	}
	return id.Name, true
}

func k11b2AssignedByCall(call *ast.CallExpr, assigned, whole map[string]bool) {
	if !k11b2On() || curFC == nil {
		return
	}
	if name, ok := curFC.k11b2SetAdd(call); ok {
		assigned[name] = true
		whole[name] = true
	}
}

// k11b2Prepare: alpha-rename shadowing locals
func (fc *fnCtx) k11b2Prepare(fd *ast.FuncDecl) {
	if !k11b2On() || fd.Body == nil {
		return
	}
	// the local variables of the function in order of declaration
	var order []types.Object
	seenObj := map[types.Object]bool{}
	note := func(id *ast.Ident) {
		if obj := fc.p.TypesInfo.Defs[id]; obj != nil {
			if _, isVar := obj.(*types.Var); isVar && !seenObj[obj] && id.Name != "_" {
				seenObj[obj] = true
				order = append(order, obj)
			}
		}
	}
	if fd.Recv != nil {
		for _, f := range fd.Recv.List {
			for _, n := range f.Names {
				note(n)
			}
		}
	}
	for _, f := range fd.Type.Params.List {
		for _, n := range f.Names {
			note(n)
		}
	}
	ast.Inspect(fd.Body, func(n ast.Node) bool {
		if id, ok := n.(*ast.Ident); ok {
			note(id)
		}
		return true
	})
	rename := map[types.Object]string{}
	count := map[string]int{}
	for _, obj := range order {
		count[obj.Name()]++
		if k := count[obj.Name()]; k > 1 {
			rename[obj] = fmt.Sprintf("%s_s%d", obj.Name(), k)
		}
	}
	if len(rename) == 0 {
		return
	}
	ast.Inspect(fd.Body, func(n ast.Node) bool {
		if id, ok := n.(*ast.Ident); ok {
			if obj := fc.p.TypesInfo.Defs[id]; obj != nil {
				if nn, ok := rename[obj]; ok {
					id.Name = nn
				}
			} else if obj := fc.p.TypesInfo.Uses[id]; obj != nil {
				if nn, ok := rename[obj]; ok {
					id.Name = nn
				}
			}
		}
		return true
	})
}

// k11b2Proj: component k of an n-tuple value t
func k11b2Proj(t string, k, n int) string {
	if n <= 1 {
		return t
	}
	pr := t + strings.Repeat(".2", k)
	if k < n-1 {
		pr += ".1"
	}
	return pr
}

// k11b2LhsType: Lean type of an assignment target
func (fc *fnCtx) k11b2LhsType(id *ast.Ident) (string, error) {
	var t types.Type
	if obj := fc.p.TypesInfo.Defs[id]; obj != nil {
		t = obj.Type()
	} else if obj := fc.p.TypesInfo.Uses[id]; obj != nil {
		t = obj.Type()
	}
	lt, err := leanTypeM(t)
	if err != nil {
		if t != nil && isErrorType(t) {
			return "Bool", nil
		}
		return "", err
	}
	return lt, nil
}

// k11b2Assign: assignment rules
func (fc *fnCtx) k11b2Assign(x *ast.AssignStmt, rest []ast.Stmt, lvl int) (string, bool, error) {
	if !k11b2On() || fc.m == nil {
		return "", false, nil
	}
	cont := func(prefix string) (string, bool, error) {
		r, err := fc.mblock(rest, lvl)
		if err != nil {
			return "", true, err
		}
		return prefix + r, true, nil
	}
	if len(x.Rhs) == 1 {
		if call, ok := x.Rhs[0].(*ast.CallExpr); ok {
			// results of a translated method that writes its receiver
			if recv, mi, ok := fc.methodCallee(call); ok && (len(mi.outs) > 0 || mi.nres > 1) {
				if x.Tok != token.DEFINE && x.Tok != token.ASSIGN {
					return "", true, fmt.Errorf("operator assignment from a method call")
				}
				if len(x.Lhs) != mi.nres {
					return "", true, fmt.Errorf("call of %s: %d results expected", mi.lean, mi.nres)
				}
				text, err := fc.methodCallText(recv, mi, call)
				if err != nil {
					return "", true, err
				}
				t := fc.bind(text)
				var sb strings.Builder
				sb.WriteString(fc.flush(lvl))
				total := mi.nres + len(mi.outs)
				for k, l := range x.Lhs {
					id, ok := l.(*ast.Ident)
					if !ok {
						return "", true, fmt.Errorf("assignment to non-local")
					}
					if id.Name == "_" {
						continue
					}
					lt, err := fc.k11b2LhsType(id)
					if err != nil {
						return "", true, err
					}
					fc.declare(id.Name, lt)
					fmt.Fprintf(&sb, "%slet %s := %s\n", ind(lvl), fc.name(id.Name), k11b2Proj(t, k, total))
				}
				for k, f := range mi.outs {
					key := recv + "_" + f
					if _, seen := fc.locals[key]; !seen {
						return "", true, fmt.Errorf("method %s writes %s, which is not a translated field", mi.lean, key)
					}
					nn := fc.bump(key)
					fmt.Fprintf(&sb, "%slet %s := %s\n", ind(lvl), nn, k11b2Proj(t, mi.nres+k, total))
				}
				return cont(sb.String())
			}
		}
	}
	// xs := make([][]T, 0, c) / xs = nil of a list of byte lists
	if len(x.Lhs) == 1 && len(x.Rhs) == 1 && (x.Tok == token.ASSIGN || x.Tok == token.DEFINE) {
		if lid, ok := x.Lhs[0].(*ast.Ident); ok && lid.Name != "_" {
			if lt, err := fc.k11b2LhsType(lid); err == nil && lt == "List (List Int)" {
				val := ""
				if rid, ok := x.Rhs[0].(*ast.Ident); ok && rid.Name == "nil" {
					val = "[]"
				}
				if call, ok := x.Rhs[0].(*ast.CallExpr); ok {
					if fid, ok := call.Fun.(*ast.Ident); ok && fid.Name == "make" && len(call.Args) >= 2 {
						if tv, ok := fc.p.TypesInfo.Types[call.Args[1]]; ok && tv.Value != nil && constant.Sign(tv.Value) == 0 {
							capOK := len(call.Args) == 2
							if len(call.Args) == 3 {
								if cv, ok := fc.p.TypesInfo.Types[call.Args[2]]; ok && cv.Value != nil && constant.Sign(cv.Value) >= 0 {
									capOK = true
								}
							}
							if capOK {
								val = "[]"
							}
						}
					}
				}
				if val != "" {
					var sb strings.Builder
					sb.WriteString(fc.flush(lvl))
					fc.declare(lid.Name, lt)
					fmt.Fprintf(&sb, "%slet %s : List (List Int) := %s\n", ind(lvl), fc.name(lid.Name), val)
					return cont(sb.String())
				}
			}
		}
	}
	// xs = append(xs, ys) on a list of byte lists
	if len(x.Lhs) == 1 && len(x.Rhs) == 1 && x.Tok == token.ASSIGN {
		if call, ok := x.Rhs[0].(*ast.CallExpr); ok {
			if fid, ok := call.Fun.(*ast.Ident); ok && fid.Name == "append" && len(call.Args) == 2 && call.Ellipsis == token.NoPos {
				if lt, err := leanTypeM(fc.p.TypesInfo.TypeOf(call)); err == nil && lt == "List (List Int)" {
					lid, ok1 := x.Lhs[0].(*ast.Ident)
					a0, ok2 := call.Args[0].(*ast.Ident)
					if !ok1 || !ok2 || lid.Name != a0.Name {
						return "", true, fmt.Errorf("append on a list of lists is supported only as `x = append(x, ys)`")
					}
					if _, seen := fc.locals[lid.Name]; !seen {
						return "", true, fmt.Errorf("free identifier %s", lid.Name)
					}
					ys, err := fc.lexpr(call.Args[1])
					if err != nil {
						return "", true, err
					}
					var sb strings.Builder
					sb.WriteString(fc.flush(lvl))
					cur := fc.name(lid.Name)
					nn := fc.bump(lid.Name)
					fmt.Fprintf(&sb, "%slet %s := (%s ++ [%s])\n", ind(lvl), nn, cur, ys)
					return cont(sb.String())
				}
			}
		}
	}
	// str, e := charmap.ISO8859_1.NewDecoder().Bytes(bs)
	if len(x.Lhs) == 2 && len(x.Rhs) == 1 && x.Tok == token.DEFINE {
		if call, ok := x.Rhs[0].(*ast.CallExpr); ok && len(call.Args) == 1 {
			if sel, ok := call.Fun.(*ast.SelectorExpr); ok && sel.Sel.Name == "Bytes" {
				if in, ok := sel.X.(*ast.CallExpr); ok && len(in.Args) == 0 {
					if isel, ok := in.Fun.(*ast.SelectorExpr); ok && isel.Sel.Name == "NewDecoder" {
						if cs, ok := isel.X.(*ast.SelectorExpr); ok && cs.Sel.Name == "ISO8859_1" {
							if pid, ok := cs.X.(*ast.Ident); ok {
								if pn, ok := fc.p.TypesInfo.Uses[pid].(*types.PkgName); ok && pn.Imported().Path() == "golang.org/x/text/encoding/charmap" {
									bs, err := fc.lexpr(call.Args[0])
									if err != nil {
										return "", true, err
									}
									k11b2NeedLib(fc.m.module)
									var sb strings.Builder
									sb.WriteString(fc.flush(lvl))
									if id, ok := x.Lhs[0].(*ast.Ident); ok && id.Name != "_" {
										fc.declare(id.Name, "List Int")
										fmt.Fprintf(&sb, "%slet %s := (Gzx.GoM.latin1Utf8 %s)\n", ind(lvl), fc.name(id.Name), bs)
									}
									if id, ok := x.Lhs[1].(*ast.Ident); ok && id.Name != "_" {
										fc.declare(id.Name, "Bool")
										fmt.Fprintf(&sb, "%slet %s := false\n", ind(lvl), fc.name(id.Name))
									}
									return cont(sb.String())
								}
							}
						}
					}
				}
			}
		}
	}
	return "", false, nil
}

func k11b2NeedLib(module string) {
	for _, i := range extraImports[module] {
		if i == "Gzx.GoMK11b2" {
			return
		}
	}
	extraImports[module] = append(extraImports[module], "Gzx.GoMK11b2")
}

// ---------- types ----------

func k11b2IsIntSet(t types.Type) bool {
	if t == nil {
		return false
	}
	nt, ok := t.(*types.Named)
	if !ok || nt.Obj().Pkg() == nil {
		return false
	}
	return nt.Obj().Name() == "intSet" && relPkg(nt.Obj().Pkg().Path()) == "datamatrix/decoder"
}

func k11b2Type(t types.Type) (string, bool) {
	if !k11b2On() || t == nil {
		return "", false
	}
	if k11b2IsIntSet(t) {
		return "List Int", true
	}
	return "", false
}

// ---------- list-valued expressions ----------

// k11b2PkgCall: `pkg.Name(args)` of an imported package
func (fc *fnCtx) k11b2PkgCall(call *ast.CallExpr) (string, bool) {
	sel, ok := call.Fun.(*ast.SelectorExpr)
	if !ok {
		return "", false
	}
	pid, ok := sel.X.(*ast.Ident)
	if !ok {
		return "", false
	}
	pn, ok := fc.p.TypesInfo.Uses[pid].(*types.PkgName)
	if !ok {
		return "", false
	}
	return pn.Imported().Path() + "." + sel.Sel.Name, true
}

func (fc *fnCtx) k11b2Lexpr(ex ast.Expr) (string, bool, error) {
	if !k11b2On() || fc.m == nil {
		return "", false, nil
	}
	if cl, ok := ex.(*ast.CompositeLit); ok && len(cl.Elts) == 0 {
		if lt, err := leanTypeM(fc.p.TypesInfo.TypeOf(cl)); err == nil && lt == "List Int" {
			return "[]", true, nil
		}
		return "", false, nil
	}
	if se, ok := ex.(*ast.SliceExpr); ok && !se.Slice3 {
		t := fc.p.TypesInfo.TypeOf(se.X)
		if _, isSlice := t.Underlying().(*types.Slice); !isSlice {
			return "", false, nil
		}
		if lt, err := leanTypeM(t); err != nil || lt != "List Int" {
			return "", false, nil
		}
		base, err := fc.lexpr(se.X)
		if err != nil {
			return "", true, err
		}
		lo, hi := "0", "(Gzx.GoM.len "+base+")"
		if se.Low != nil {
			if lo, err = fc.expr(se.Low); err != nil {
				return "", true, err
			}
		}
		if se.High != nil {
			if hi, err = fc.expr(se.High); err != nil {
				return "", true, err
			}
		}
		return fc.bind(fmt.Sprintf("Gzx.GoM.slice %s %s %s", base, lo, hi)), true, nil
	}
	call, ok := ex.(*ast.CallExpr)
	if !ok {
		return "", false, nil
	}
	// string(rune(c)) of a byte
	if tv, ok := fc.p.TypesInfo.Types[call.Fun]; ok && tv.IsType() && len(call.Args) == 1 {
		if b, ok := tv.Type.Underlying().(*types.Basic); ok && b.Info()&types.IsString != 0 {
			if in, ok := call.Args[0].(*ast.CallExpr); ok && len(in.Args) == 1 {
				if itv, ok := fc.p.TypesInfo.Types[in.Fun]; ok && itv.IsType() {
					if ib, ok := itv.Type.Underlying().(*types.Basic); ok && ib.Kind() == types.Int32 && unsignedBits(fc.p.TypesInfo.TypeOf(in.Args[0])) == 8 {
						v, err := fc.expr(in.Args[0])
						if err != nil {
							return "", true, err
						}
						k11b2NeedLib(fc.m.module)
						return "(Gzx.GoM.utf8Byte " + v + ")", true, nil
					}
				}
			}
		}
	}
	// conversions []byte(<string>)
	if tv, ok := fc.p.TypesInfo.Types[call.Fun]; ok && tv.IsType() && len(call.Args) == 1 {
		if lt, err := leanTypeM(tv.Type); err != nil || lt != "List Int" {
			return "", false, nil
		}
		if atv, ok := fc.p.TypesInfo.Types[call.Args[0]]; ok && atv.Value != nil && atv.Value.Kind() == constant.String {
			return intLitList(stringBytes(constant.StringVal(atv.Value))), true, nil
		}
		if inner, ok := call.Args[0].(*ast.CallExpr); ok {
			if full, ok := fc.k11b2PkgCall(inner); ok && full == "strconv.Itoa" && len(inner.Args) == 1 {
				v, err := fc.expr(inner.Args[0])
				if err != nil {
					return "", true, err
				}
				k11b2NeedLib(fc.m.module)
				return "(Gzx.GoM.itoa " + v + ")", true, nil
			}
		}
		// []byte(x) of a slice / string value: the same list
		s, err := fc.lexpr(call.Args[0])
		return s, true, err
	}
	if id, ok := call.Fun.(*ast.Ident); ok && id.Name == "make" && len(call.Args) == 3 {
		if _, isBuiltin := fc.p.TypesInfo.Uses[id].(*types.Builtin); !isBuiltin {
			return "", false, nil
		}
		if lt, err := leanTypeM(fc.p.TypesInfo.TypeOf(call)); err != nil || lt != "List Int" {
			return "", false, nil
		}
		n, err := fc.expr(call.Args[1])
		if err != nil {
			return "", true, err
		}
		c, err := fc.expr(call.Args[2])
		if err != nil {
			return "", true, err
		}
		k11b2NeedLib(fc.m.module)
		return fc.bind(fmt.Sprintf("Gzx.GoM.mk3n %s %s", n, c)), true, nil
	}
	if id, ok := call.Fun.(*ast.Ident); ok && id.Name == "append" {
		if _, isBuiltin := fc.p.TypesInfo.Uses[id].(*types.Builtin); !isBuiltin {
			return "", false, nil
		}
		if lt, err := leanTypeM(fc.p.TypesInfo.TypeOf(call)); err != nil || lt != "List Int" {
			return "", false, nil
		}
		if len(call.Args) < 1 {
			return "", true, fmt.Errorf("append without arguments")
		}
		base, err := fc.lexpr(call.Args[0])
		if err != nil {
			return "", true, err
		}
		if call.Ellipsis != token.NoPos {
			if len(call.Args) != 2 {
				return "", true, fmt.Errorf("append with ... and %d arguments", len(call.Args))
			}
			ys, err := fc.lexpr(call.Args[1])
			if err != nil {
				return "", true, err
			}
			return "(" + base + " ++ " + ys + ")", true, nil
		}
		var vs []string
		for _, a := range call.Args[1:] {
			v, err := fc.expr(a)
			if err != nil {
				return "", true, err
			}
			vs = append(vs, v)
		}
		return "(" + base + " ++ [" + strings.Join(vs, ", ") + "])", true, nil
	}
	return "", false, nil
}

// k11b2Used: a loop body that returns mentions every out variable (the `.ret` value carries them)
func (fc *fnCtx) k11b2Used(nodes []ast.Node, used map[string]bool) {
	if !k11b2On() || fc.m == nil || len(fc.m.outVars) == 0 {
		return
	}
	hasRet := false
	for _, nd := range nodes {
		ast.Inspect(nd, func(n ast.Node) bool {
			switch n.(type) {
			case *ast.FuncLit:
				return false
			case *ast.ReturnStmt:
				hasRet = true
			}
			return !hasRet
		})
	}
	if hasRet {
		for _, o := range fc.m.outVars {
			used[o] = true
		}
	}
}

// ---------- the mode loop as a view ----------

func (fc *fnCtx) k11b2TypeExpr(t types.Type, pos token.Pos) ast.Expr {
	id := &ast.Ident{Name: "k11b2_type", NamePos: pos}
	fc.p.TypesInfo.Types[id] = types.TypeAndValue{Type: t}
	return id
}

var k11b2Viewed = map[*ast.FuncDecl]bool{}

// k11b2View: see the header
func (fc *fnCtx) k11b2View(fd *ast.FuncDecl) {
	if !strings.HasPrefix(curModule, "K02e") || fd.Recv != nil || fd.Name.Name != "DecodedBitStreamParser_decode" || fd.Body == nil || k11b2Viewed[fd] {
		return
	}
	// 1. bits := common.NewBitSource(bytes)  ->  parameter
	var bitsObj types.Object
	var rest []ast.Stmt
	for _, st := range fd.Body.List {
		if as, ok := st.(*ast.AssignStmt); ok && as.Tok == token.DEFINE && len(as.Lhs) == 1 && len(as.Rhs) == 1 && bitsObj == nil {
			if call, ok := as.Rhs[0].(*ast.CallExpr); ok {
				if full, ok := fc.k11b2PkgCall(call); ok && strings.HasSuffix(full, "/common.NewBitSource") {
					if id, ok := as.Lhs[0].(*ast.Ident); ok {
						bitsObj = fc.p.TypesInfo.Defs[id]
						continue
					}
				}
			}
		}
		rest = append(rest, st)
	}
	if bitsObj == nil {
		return
	}
	// 2. the last statement: return common.NewDecoderResultWithSymbologyModifier(bytes, string(result), byteSegments, "", symbologyModifier), nil
	last, ok := rest[len(rest)-1].(*ast.ReturnStmt)
	if !ok || len(last.Results) != 2 {
		return
	}
	call, ok := last.Results[0].(*ast.CallExpr)
	if !ok || len(call.Args) != 5 {
		return
	}
	conv, ok := call.Args[1].(*ast.CallExpr) // string(result)
	if !ok || len(conv.Args) != 1 {
		return
	}
	resultE, segsE, modE := conv.Args[0], call.Args[2], call.Args[4]
	tRes, tSegs, tMod := fc.p.TypesInfo.TypeOf(resultE), fc.p.TypesInfo.TypeOf(segsE), fc.p.TypesInfo.TypeOf(modE)
	if tRes == nil || tSegs == nil || tMod == nil {
		return
	}
	k11b2Viewed[fd] = true
	fd.Body.List = rest
	pid := &ast.Ident{Name: bitsObj.Name(), NamePos: fd.Pos()}
	fc.p.TypesInfo.Defs[pid] = bitsObj
	fd.Type.Params.List = append([]*ast.Field{{Names: []*ast.Ident{pid}, Type: fc.k11b2TypeExpr(bitsObj.Type(), fd.Pos())}}, fd.Type.Params.List...)
	errT := fc.p.TypesInfo.TypeOf(fd.Type.Results.List[len(fd.Type.Results.List)-1].Type)
	fd.Type.Results.List = []*ast.Field{
		{Type: fc.k11b2TypeExpr(tRes, fd.Pos())}, {Type: fc.k11b2TypeExpr(tSegs, fd.Pos())}, {Type: fc.k11b2TypeExpr(tMod, fd.Pos())},
		{Type: fc.k11b2TypeExpr(errT, fd.Pos())},
	}
	mkNil := func(t types.Type, pos token.Pos) ast.Expr {
		id := &ast.Ident{Name: "nil", NamePos: pos}
		fc.p.TypesInfo.Types[id] = types.TypeAndValue{Type: t}
		fc.p.TypesInfo.Uses[id] = types.Universe.Lookup("nil")
		return id
	}
	mkZero := func(pos token.Pos) ast.Expr {
		lit := &ast.BasicLit{Kind: token.INT, Value: "0", ValuePos: pos}
		fc.p.TypesInfo.Types[lit] = types.TypeAndValue{Type: tMod, Value: constant.MakeInt64(0)}
		return lit
	}
	ast.Inspect(fd.Body, func(n ast.Node) bool {
		switch x := n.(type) {
		case *ast.FuncLit:
			return false
		case *ast.ReturnStmt:
			if len(x.Results) != 2 {
				return true
			}
			if x == last {
				x.Results = []ast.Expr{resultE, segsE, modE, x.Results[1]}
			} else {
				x.Results = []ast.Expr{mkNil(tRes, x.Pos()), mkNil(tSegs, x.Pos()), mkZero(x.Pos()), x.Results[1]}
			}
		}
		return true
	})
}

// k11b2Return: `nil` for a result that is a list of byte lists
func (fc *fnCtx) k11b2Return(ri int, r ast.Expr) ([]string, bool, error) {
	if !k11b2On() || fc.m == nil {
		return nil, false, nil
	}
	if id, ok := r.(*ast.Ident); ok && id.Name == "nil" {
		if lt, err := leanTypeM(fc.p.TypesInfo.TypeOf(r)); err == nil && lt == "List (List Int)" {
			return []string{"[]"}, true, nil
		}
	}
	return nil, false, nil
}

// k11b2Mexpr: expression forms
func (fc *fnCtx) k11b2Mexpr(ex ast.Expr) (string, bool, error) {
	if !k11b2On() || fc.m == nil {
		return "", false, nil
	}
	if call, ok := ex.(*ast.CallExpr); ok {
		// len(xs) of a list of byte lists
		if id, ok := call.Fun.(*ast.Ident); ok && id.Name == "len" && len(call.Args) == 1 {
			if a, ok := call.Args[0].(*ast.Ident); ok {
				if _, seen := fc.locals[a.Name]; seen && fc.m.ltype[a.Name] == "List (List Int)" {
					return "(Int.ofNat (List.length " + fc.name(a.Name) + "))", true, nil
				}
			}
		}
		if sel, ok := call.Fun.(*ast.SelectorExpr); ok && sel.Sel.Name == "contains" && len(call.Args) == 1 {
			if id, ok := sel.X.(*ast.Ident); ok && k11b2IsIntSet(fc.p.TypesInfo.TypeOf(id)) {
				s, err := fc.lexpr(id)
				if err != nil {
					return "", true, err
				}
				n0 := len(fc.m.pre)
				v, err := fc.expr(call.Args[0])
				if err != nil {
					return "", true, err
				}
				if len(fc.m.pre) != n0 {
					return "", true, fmt.Errorf("checked operation in the argument of contains")
				}
				k11b2NeedLib(fc.m.module)
				return "(Gzx.GoM.setContains " + s + " " + v + ")", true, nil
			}
		}
	}
	return "", false, nil
}
