// Round 4, work package k17k20 — extensions of the monadic target (kinds `funcm` / `region`), kept in this file;
// monadic.go only calls the hooks below (each at the START of the function named, so that everything the translator
// handled before is handled exactly as before: a hook answers `handled=false` for every form it does not own).
//
//	leanTypeM     -> extLeanType        `[][]int` (a slice of integer slices) is `List (List Int)`
//	lexpr         -> fc.extLexpr        `m[i]` of a `[][]int` as a list value (checked row read)
//	mexpr         -> fc.extExpr         `m[i][j]`, `make([][]int, n)`, calls of functions / methods translated earlier that
//	                                     take struct parameters other than a receiver, write a slice parameter, or need fuel
//	mblock        -> fc.extStmt         `xs[i]++` / `xs[i]--`; writes `m[i] = row`, `m[i][j] op= v`; `return F(args)`,
//	                                     `F(args)` and `a, b := F(args)` for such callees (the slices / receiver fields the
//	                                     callee writes are rebound in the caller); two-variable counted loops
//	                                     `for a, b := e1, e2; a < n; a, b = a+1, f(b) { … }` (b becomes loop state);
//	                                     `region` only: `x, _ := obj.M(args)` of an interface-typed object `obj` yielding a
//	                                     []byte / []int / int: the uninterpreted value `obj_M args`, a PARAMETER of the region
//	assignedIn3   -> extAssignedByCall  the caller's names such a call writes
//	usedNames     -> fc.extUsedByCall   the caller's names such a call reads
//	genFuncM(end) -> extRegister        records the parameter layout of every translated function for later call sites
//	structOf      -> extFlatten         a struct parameter with EMBEDDED structs (`RGBLuminanceSource{LuminanceSourceBase; …}`,
//	                                     `GoImageLuminanceSource{*RGBLuminanceSource}`): the promoted fields are fields
//	genRegion     -> extRegionCond      region spec `F@if:<k>>`: the condition of the k-th top-level `if` of F as a Bool function
//	              -> extRegionOffsets   region bounds `name+k`: k top-level statements after the one found for `name`
//	              -> fc.extPrescanRegion  uninterpreted interface calls as parameters (above); the translatable fields of
//	                                     struct variables are locals of the region (writes through translated methods rebind
//	                                     them, `x_f` may be an output); outputs that are slices declared outside may be written
//	lexpr (also)                          `xs[a:b]` of an integer slice as a VALUE (`Gzx.GoM.sliceL`, bounds checked against
//	                                     len: the translator's slices have cap = len, as every slice from make has)
//	mblock (also)                         `for a, b = e1, e2; cond; post` (assignment, not declaration, in the header)
//
// Run-time library: lean/Gzx/GoMExt.lean (`mk2`, `idxRow`, `setRow`).
package main

import (
	"fmt"
	"go/ast"
	"go/token"
	"go/types"
	"sort"
	"strings"

	"golang.org/x/tools/go/packages"
)

func sortStrings(s []string) { sort.Strings(s) }

const list2 = "List (List Int)"

func needExt(module string) {
	for _, i := range extraImports[module] {
		if i == "Gzx.GoMExt" {
			return
		}
	}
	extraImports[module] = append(extraImports[module], "Gzx.GoMExt")
}

// ---------- types ----------

func extLeanType(t types.Type) (string, bool) {
	if !k17On() {
		return "", false
	}

	if s, ok := t.Underlying().(*types.Slice); ok {
		if in, ok := s.Elem().Underlying().(*types.Slice); ok {
			if lt, err := leanType(in.Elem()); err == nil && lt == "Int" {
				return list2, true
			}
		}
	}
	return "", false
}

// local2: ex is a local / parameter of type `[][]int`
func (fc *fnCtx) local2(ex ast.Expr) (string, bool) {
	if pe, ok := ex.(*ast.ParenExpr); ok {
		return fc.local2(pe.X)
	}
	id, ok := ex.(*ast.Ident)
	if !ok || fc.m == nil {
		return "", false
	}
	if _, seen := fc.locals[id.Name]; !seen || fc.m.ltype[id.Name] != list2 {
		return "", false
	}
	return id.Name, true
}

// ---------- callee registry ----------

type extParam struct {
	structName string   // "" for a plain parameter
	isNil      bool     // the `<x>_isNil` parameter is present
	fields     []string // fields of the struct parameter that are parameters, in order
}

type extCallee struct {
	lean   string
	fuel   bool
	params []extParam // one per Go parameter (receiver first)
	nres   int        // translated Go results
	outs   []string   // callee-side names written ("<param>_<field>" or a slice parameter), returned after the results
	pnames []string   // Go parameter names, receiver first
}

var extCallees = map[string]extCallee{} // "<module>|<pkg>.<Func | Recv.Method>"

// extRegister is called at the end of genFuncM.
func extRegister(e entry, fd *ast.FuncDecl, fc *fnCtx, nres int) {
	if !k17On() {
		return
	}

	var fields []*ast.Field
	if fd.Recv != nil {
		fields = append(fields, fd.Recv.List...)
	}
	fields = append(fields, fd.Type.Params.List...)
	ci := extCallee{lean: e.lean, fuel: fc.m.fuelUsed, nres: nres, outs: append([]string{}, fc.m.outVars...)}
	for _, fl := range fields {
		for _, n := range fl.Names {
			ci.pnames = append(ci.pnames, n.Name)
			st, isS := fc.structs[n.Name]
			if !isS {
				ci.params = append(ci.params, extParam{})
				continue
			}
			ep := extParam{structName: n.Name}
			for j := 0; j < st.NumFields(); j++ {
				if _, ok := fc.fieldsUsed[n.Name+"_"+st.Field(j).Name()]; ok {
					ep.fields = append(ep.fields, st.Field(j).Name())
				}
			}
			_, ep.isNil = fc.fieldsUsed[n.Name+"_isNil"]
			ci.params = append(ci.params, ep)
		}
		if len(fl.Names) == 0 {
			return // unnamed parameter: not callable
		}
	}
	extCallees[e.module+"|"+e.pkg+"."+e.name] = ci
}

// extCalleeOf: the call is one this file owns: a registered callee that the older mechanisms (callees, methodCallees,
// trivial getters) do not handle.  Returns the argument expressions, receiver first.
func (fc *fnCtx) extCalleeOf(call *ast.CallExpr) (extCallee, []ast.Expr, bool) {
	if fc == nil || fc.m == nil {
		return extCallee{}, nil, false
	}
	var fn *types.Func
	var args []ast.Expr
	switch f := call.Fun.(type) {
	case *ast.Ident:
		fn, _ = fc.p.TypesInfo.Uses[f].(*types.Func)
	case *ast.SelectorExpr:
		fn, _ = fc.p.TypesInfo.Uses[f.Sel].(*types.Func)
		if fn != nil {
			if sig, ok := fn.Type().(*types.Signature); ok && sig.Recv() != nil {
				args = append(args, f.X)
			}
		}
	}
	if fn == nil || fn.Pkg() == nil {
		return extCallee{}, nil, false
	}
	name := fn.Name()
	if sig, ok := fn.Type().(*types.Signature); ok && sig.Recv() != nil {
		name = typeName(sig.Recv().Type()) + "." + name
	}
	key := fc.m.module + "|" + relPkg(fn.Pkg().Path()) + "." + name
	ci, ok := extCallees[key]
	if !ok {
		return extCallee{}, nil, false
	}
	if _, old := callees[key]; old {
		return extCallee{}, nil, false
	}
	if _, _, old := fc.methodCallee(call); old {
		return extCallee{}, nil, false
	}
	args = append(args, call.Args...)
	if len(args) != len(ci.params) {
		return extCallee{}, nil, false
	}
	return ci, args, true
}

// structArg: the caller's struct parameter an argument denotes
func (fc *fnCtx) structArg(a ast.Expr) (string, bool) {
	if pe, ok := a.(*ast.ParenExpr); ok {
		return fc.structArg(pe.X)
	}
	id, ok := a.(*ast.Ident)
	if !ok {
		return "", false
	}
	_, isS := fc.structs[id.Name]
	return id.Name, isS
}

// extOutTargets: the caller's names the call writes, in the order of ci.outs
func (fc *fnCtx) extOutTargets(ci extCallee, args []ast.Expr) ([]string, error) {
	var out []string
	for _, o := range ci.outs {
		found := false
		for k, ep := range ci.params {
			pn := ci.pnames[k]
			if ep.structName != "" && strings.HasPrefix(o, pn+"_") {
				q, ok := fc.structArg(args[k])
				if !ok {
					return nil, fmt.Errorf("argument for struct parameter %s is not a struct parameter", pn)
				}
				out = append(out, q+"_"+strings.TrimPrefix(o, pn+"_"))
				found = true
				break
			}
			if ep.structName == "" && o == pn {
				name, viaElem := lvalName(args[k])
				if name == "" || viaElem {
					return nil, fmt.Errorf("argument for written slice parameter %s is not a local", pn)
				}
				out = append(out, name)
				found = true
				break
			}
		}
		if !found {
			return nil, fmt.Errorf("written name %s of the callee is not a parameter", o)
		}
	}
	return out, nil
}

func extAssignedByCall(call *ast.CallExpr, assigned, whole map[string]bool) {
	if !k17On() {
		return
	}

	if curFC == nil {
		return
	}
	ci, args, ok := curFC.extCalleeOf(call)
	if !ok {
		return
	}
	if ts, err := curFC.extOutTargets(ci, args); err == nil {
		for _, t := range ts {
			assigned[t] = true
			whole[t] = true
		}
	}
}

func (fc *fnCtx) extUsedByCall(call *ast.CallExpr, used map[string]bool) {
	if !k17On() {
		return
	}

	if fc.m != nil && fc.m.region {
		if rt := fc.p.TypesInfo.TypeOf(call); rt != nil {
			if pname, _, _, _, ok := fc.opaqueCall(call, rt); ok {
				used[pname] = true
			}
		}
	}
	ci, args, ok := fc.extCalleeOf(call)
	if !ok {
		return
	}
	for k, ep := range ci.params {
		if ep.structName == "" {
			continue
		}
		if q, ok := fc.structArg(args[k]); ok {
			for _, f := range ep.fields {
				used[q+"_"+f] = true
			}
			if ep.isNil {
				used[q+"_isNil"] = true
			}
		}
	}
}

// extCallBind queues the call as a pending checked operation and returns its name.
func (fc *fnCtx) extCallBind(ci extCallee, args []ast.Expr) (string, error) {
	parts := []string{ci.lean}
	if ci.fuel {
		fc.m.fuelUsed = true
		parts = append(parts, "fuel")
	}
	for k, ep := range ci.params {
		if ep.structName != "" {
			q, ok := fc.structArg(args[k])
			if !ok {
				return "", fmt.Errorf("argument %d of %s is not a struct parameter", k, ci.lean)
			}
			if ep.isNil {
				if _, seen := fc.locals[q+"_isNil"]; !seen {
					return "", fmt.Errorf("nil test of value parameter %s in callee %s", q, ci.lean)
				}
				fc.fieldsUsed[q+"_isNil"] = "Bool"
				parts = append(parts, fc.name(q+"_isNil"))
			}
			for _, f := range ep.fields {
				s, err := fc.expr(&ast.SelectorExpr{X: &ast.Ident{Name: q}, Sel: &ast.Ident{Name: f}})
				if err != nil {
					return "", err
				}
				parts = append(parts, s)
			}
			continue
		}
		var s string
		var err error
		if _, lerr := leanType(fc.p.TypesInfo.TypeOf(args[k])); lerr != nil {
			if _, is2 := fc.local2(args[k]); is2 {
				s, err = fc.expr(args[k])
			} else {
				s, err = fc.lexpr(args[k])
			}
		} else {
			s, err = fc.expr(args[k])
		}
		if err != nil {
			return "", err
		}
		parts = append(parts, s)
	}
	return fc.bind(strings.Join(parts, " ")), nil
}

// extCall binds the call and rebinds what it writes; returns the projections of its Go results.
func (fc *fnCtx) extCall(ci extCallee, args []ast.Expr, lvl int) (pre string, results []string, err error) {
	targets, err := fc.extOutTargets(ci, args)
	if err != nil {
		return "", nil, err
	}
	t, err := fc.extCallBind(ci, args)
	if err != nil {
		return "", nil, err
	}
	var sb strings.Builder
	sb.WriteString(fc.flush(lvl))
	total := ci.nres + len(ci.outs)
	pr := func(k int) string {
		if total <= 1 {
			return t
		}
		s := t + strings.Repeat(".2", k)
		if k < total-1 {
			s += ".1"
		}
		return s
	}
	for k := 0; k < ci.nres; k++ {
		results = append(results, pr(k))
	}
	for k, tg := range targets {
		if _, seen := fc.locals[tg]; !seen {
			return "", nil, fmt.Errorf("callee %s writes %s, which is not a translated name of the caller", ci.lean, tg)
		}
		if fc.isParam(tg) && fc.m.ltype[tg] == "List Int" && !fc.isOutVar(tg) {
			return "", nil, fmt.Errorf("callee %s writes elements of parameter %s", ci.lean, tg)
		}
		nn := fc.bump(tg)
		fmt.Fprintf(&sb, "%slet %s := %s\n", ind(lvl), nn, pr(ci.nres+k))
	}
	return sb.String(), results, nil
}

// ---------- expressions ----------

func (fc *fnCtx) extLexpr(ex ast.Expr) (string, bool, error) {
	if !k17On() {
		return "", false, nil
	}

	if se, ok := ex.(*ast.SliceExpr); ok && !se.Slice3 {
		t := fc.p.TypesInfo.TypeOf(se.X)
		if _, isSlice := t.Underlying().(*types.Slice); isSlice {
			if lt, err := leanTypeM(t); err == nil && lt == "List Int" {
				base, err := fc.lexpr(se.X)
				if err != nil {
					return "", true, err
				}
				lo, hi := "0", "(Gzx.GoM.len "+base+")"
				if se.Low != nil {
					if lo, err = fc.expr(se.Low); err != nil {
						return "", true, err
					}
				}
				if se.High != nil {
					if hi, err = fc.expr(se.High); err != nil {
						return "", true, err
					}
				}
				needExt(fc.m.module)
				return fc.bind(fmt.Sprintf("Gzx.GoM.sliceL %s %s %s", base, lo, hi)), true, nil
			}
		}
	}
	if ix, ok := ex.(*ast.IndexExpr); ok {
		if name, ok := fc.local2(ix.X); ok {
			i, err := fc.expr(ix.Index)
			if err != nil {
				return "", true, err
			}
			needExt(fc.m.module)
			return fc.bind(fmt.Sprintf("Gzx.GoM.idxRow %s %s", fc.name(name), i)), true, nil
		}
	}
	return "", false, nil
}

func (fc *fnCtx) extExpr(ex ast.Expr) (string, bool, error) {
	if !k17On() {
		return "", false, nil
	}

	switch x := ex.(type) {
	case *ast.IndexExpr:
		// m[i][j]
		if in, ok := x.X.(*ast.IndexExpr); ok {
			if name, ok := fc.local2(in.X); ok {
				i, err := fc.expr(in.Index)
				if err != nil {
					return "", true, err
				}
				needExt(fc.m.module)
				row := fc.bind(fmt.Sprintf("Gzx.GoM.idxRow %s %s", fc.name(name), i))
				j, err := fc.expr(x.Index)
				if err != nil {
					return "", true, err
				}
				return fc.bind(fmt.Sprintf("Gzx.GoM.idx %s %s", row, j)), true, nil
			}
		}
	case *ast.CallExpr:
		if id, ok := x.Fun.(*ast.Ident); ok && id.Name == "make" && len(x.Args) == 2 {
			if _, isBuiltin := fc.p.TypesInfo.Uses[id].(*types.Builtin); isBuiltin {
				if lt, ok := extLeanType(fc.p.TypesInfo.TypeOf(x)); ok && lt == list2 {
					n, err := fc.expr(x.Args[1])
					if err != nil {
						return "", true, err
					}
					needExt(fc.m.module)
					return fc.bind("Gzx.GoM.mk2 " + n), true, nil
				}
			}
		}
		if ci, args, ok := fc.extCalleeOf(x); ok {
			if len(ci.outs) != 0 || ci.nres != 1 {
				return "", true, fmt.Errorf("call of %s in an expression writes its arguments / has no single result", ci.lean)
			}
			t, err := fc.extCallBind(ci, args)
			return t, true, err
		}
	}
	return "", false, nil
}

// ---------- statements ----------

func hasContinue(body []ast.Stmt) bool {
	found := false
	for _, st := range body {
		ast.Inspect(st, func(n ast.Node) bool {
			switch y := n.(type) {
			case *ast.ForStmt, *ast.RangeStmt, *ast.FuncLit:
				return false
			case *ast.BranchStmt:
				if y.Tok == token.CONTINUE {
					found = true
				}
			}
			return true
		})
	}
	return found
}

func (fc *fnCtx) extStmt(s ast.Stmt, rest []ast.Stmt, lvl int) (string, bool, error) {
	if !k17On() {
		return "", false, nil
	}

	cont := func(prefix string) (string, bool, error) {
		r, err := fc.mblock(rest, lvl)
		if err != nil {
			return "", true, err
		}
		return prefix + r, true, nil
	}
	switch x := s.(type) {
	case *ast.IncDecStmt:
		// xs[i]++ / xs[i]--
		ix, ok := x.X.(*ast.IndexExpr)
		if !ok {
			return "", false, nil
		}
		key, ok := fc.lvalueKey(ix.X)
		if !ok {
			return "", false, nil
		}
		if _, seen := fc.locals[key]; !seen || fc.m.ltype[key] != "List Int" {
			return "", false, nil
		}
		if fc.isParam(key) && !fc.isOutVar(key) {
			return "", true, fmt.Errorf("element assignment to parameter %s (visible to the caller)", key)
		}
		i, err := fc.expr(ix.Index)
		if err != nil {
			return "", true, err
		}
		cur := fc.bind(fmt.Sprintf("Gzx.GoM.idx %s %s", fc.name(key), i))
		op := "+"
		if x.Tok == token.DEC {
			op = "-"
		}
		val := fmt.Sprintf("(%s %s 1)", cur, op)
		if n := unsignedBits(fc.p.TypesInfo.TypeOf(ix)); n > 0 {
			val = fmt.Sprintf("(Gzx.GoM.wrap %d %s)", n, val)
		}
		nv := fc.bind(fmt.Sprintf("Gzx.GoM.setIdx %s %s %s", fc.name(key), i, val))
		var sb strings.Builder
		sb.WriteString(fc.flush(lvl))
		nn := fc.bump(key)
		fmt.Fprintf(&sb, "%slet %s := %s\n", ind(lvl), nn, nv)
		return cont(sb.String())

	case *ast.AssignStmt:
		// writes into a [][]int
		if len(x.Lhs) == 1 && len(x.Rhs) == 1 {
			if ix, ok := x.Lhs[0].(*ast.IndexExpr); ok {
				if name, ok := fc.local2(ix.X); ok { // m[i] = row
					if x.Tok != token.ASSIGN {
						return "", true, fmt.Errorf("operator assignment on a row of %s", name)
					}
					if fc.isParam(name) && !fc.isOutVar(name) {
						return "", true, fmt.Errorf("row assignment to parameter %s (visible to the caller)", name)
					}
					i, err := fc.expr(ix.Index)
					if err != nil {
						return "", true, err
					}
					row, err := fc.lexprOrMake(x.Rhs[0])
					if err != nil {
						return "", true, err
					}
					needExt(fc.m.module)
					nv := fc.bind(fmt.Sprintf("Gzx.GoM.setRow %s %s %s", fc.name(name), i, row))
					var sb strings.Builder
					sb.WriteString(fc.flush(lvl))
					nn := fc.bump(name)
					fmt.Fprintf(&sb, "%slet %s := %s\n", ind(lvl), nn, nv)
					return cont(sb.String())
				}
				if in, ok := ix.X.(*ast.IndexExpr); ok {
					if name, ok := fc.local2(in.X); ok { // m[i][j] op= v
						if fc.isParam(name) && !fc.isOutVar(name) {
							return "", true, fmt.Errorf("element assignment to parameter %s (visible to the caller)", name)
						}
						i, err := fc.expr(in.Index)
						if err != nil {
							return "", true, err
						}
						j, err := fc.expr(ix.Index)
						if err != nil {
							return "", true, err
						}
						val, err := fc.expr(x.Rhs[0])
						if err != nil {
							return "", true, err
						}
						needExt(fc.m.module)
						row := fc.bind(fmt.Sprintf("Gzx.GoM.idxRow %s %s", fc.name(name), i))
						if x.Tok != token.ASSIGN {
							cur := fc.bind(fmt.Sprintf("Gzx.GoM.idx %s %s", row, j))
							val, err = fc.opAssign(x.Tok, cur, val, fc.p.TypesInfo.TypeOf(ix), x.Rhs[0])
							if err != nil {
								return "", true, err
							}
						}
						row2 := fc.bind(fmt.Sprintf("Gzx.GoM.setIdx %s %s %s", row, j, val))
						nv := fc.bind(fmt.Sprintf("Gzx.GoM.setRow %s %s %s", fc.name(name), i, row2))
						var sb strings.Builder
						sb.WriteString(fc.flush(lvl))
						nn := fc.bump(name)
						fmt.Fprintf(&sb, "%slet %s := %s\n", ind(lvl), nn, nv)
						return cont(sb.String())
					}
				}
			}
		}
		// a, b := F(args) / x = F(args) for a callee of this file
		if len(x.Rhs) == 1 {
			if call, ok := x.Rhs[0].(*ast.CallExpr); ok {
				if ci, args, ok := fc.extCalleeOf(call); ok && (len(ci.outs) > 0 || len(x.Lhs) > 1) {
					if x.Tok != token.DEFINE && x.Tok != token.ASSIGN {
						return "", true, fmt.Errorf("operator assignment from a call")
					}
					if len(x.Lhs) != ci.nres {
						return "", true, fmt.Errorf("call of %s: %d results expected", ci.lean, ci.nres)
					}
					pre, res, err := fc.extCall(ci, args, lvl)
					if err != nil {
						return "", true, err
					}
					var sb strings.Builder
					sb.WriteString(pre)
					for k, l := range x.Lhs {
						id, ok := l.(*ast.Ident)
						if !ok {
							return "", true, fmt.Errorf("assignment to non-local")
						}
						if id.Name == "_" {
							continue
						}
						var t types.Type
						if obj := fc.p.TypesInfo.Defs[id]; obj != nil {
							t = obj.Type()
						} else if obj := fc.p.TypesInfo.Uses[id]; obj != nil {
							t = obj.Type()
						}
						lt, err := leanTypeM(t)
						if err != nil {
							if t != nil && isErrorType(t) {
								lt = "Bool"
							} else {
								return "", true, err
							}
						}
						fc.declare(id.Name, lt)
						fmt.Fprintf(&sb, "%slet %s := %s\n", ind(lvl), fc.name(id.Name), res[k])
					}
					return cont(sb.String())
				}
				if fc.m.region {
					if text, handled, err := fc.extOpaqueAssign(x, call, lvl); handled {
						if err != nil {
							return "", true, err
						}
						return cont(text)
					}
				}
			}
		}

	case *ast.ExprStmt:
		if call, ok := x.X.(*ast.CallExpr); ok {
			if fc.m.region && regionFields[fc.m] {
				// a region with struct-field state: calls of translated methods are part of the data flow
				if _, _, ok := fc.methodCallee(call); ok {
					text, handled, err := fc.mcallStmt(call, lvl)
					if handled {
						if err != nil {
							return "", true, err
						}
						return cont(text)
					}
				}
			}
			if ci, args, ok := fc.extCalleeOf(call); ok {
				pre, _, err := fc.extCall(ci, args, lvl)
				if err != nil {
					return "", true, err
				}
				return cont(pre)
			}
		}

	case *ast.ReturnStmt:
		// return F(args)  (F's results are exactly this function's results)
		if len(x.Results) == 1 && !fc.m.region {
			if call, ok := x.Results[0].(*ast.CallExpr); ok {
				if ci, args, ok := fc.extCalleeOf(call); ok {
					if ci.nres != len(fc.m.resTypes) || len(fc.m.structRes) > 0 {
						return "", true, fmt.Errorf("return of a call of %s: result shapes differ", ci.lean)
					}
					for _, d := range fc.m.dropRes {
						if d {
							return "", true, fmt.Errorf("return of a call of %s: object-valued result", ci.lean)
						}
					}
					pre, res, err := fc.extCall(ci, args, lvl)
					if err != nil {
						return "", true, err
					}
					rs := append(append([]string{}, res...), fc.outNames()...)
					kw := ".ok "
					if fc.m.body {
						kw = ".ret "
					}
					return pre + ind(lvl) + kw + "(" + strings.Join(rs, ", ") + ")", true, nil
				}
				// soundness: a call of a function of this repository that yields an `error` is not a constant
				if fn := calledFunc(fc, call); fn != nil && fn.Pkg() != nil && strings.HasPrefix(fn.Pkg().Path(), modPath) {
					if t := fc.p.TypesInfo.TypeOf(call); t != nil && isErrorType(t) && !strings.HasPrefix(fn.Name(), "New") && !strings.HasPrefix(fn.Name(), "Wrap") {
						return "", true, fmt.Errorf("return of a call of %s, which is not translated into this module", fn.Name())
					}
				}
			}
		}

	case *ast.ForStmt:
		// for a, b = e1, e2; cond; post { body }   ==>   a, b = e1, e2; for ; cond; post { body }
		if as, ok := x.Init.(*ast.AssignStmt); ok && as.Tok == token.ASSIGN {
			loop := &ast.ForStmt{For: x.For, Cond: x.Cond, Post: x.Post, Body: x.Body}
			text, err := fc.mblock(append([]ast.Stmt{as, loop}, rest...), lvl)
			return text, true, err
		}
		// for a, b := e1, e2; cond(a); a, b = a±k, f(b) { body }   ==>   b := e2; for a := e1; cond(a); a ±= k { body; b = f(b) }
		init, ok1 := x.Init.(*ast.AssignStmt)
		post, ok2 := x.Post.(*ast.AssignStmt)
		if !ok1 || !ok2 || init.Tok != token.DEFINE || post.Tok != token.ASSIGN || len(init.Lhs) != 2 || len(init.Rhs) != 2 ||
			len(post.Lhs) != 2 || len(post.Rhs) != 2 {
			return "", false, nil
		}
		a, okA := init.Lhs[0].(*ast.Ident)
		b, okB := init.Lhs[1].(*ast.Ident)
		pa, okPA := post.Lhs[0].(*ast.Ident)
		pb, okPB := post.Lhs[1].(*ast.Ident)
		if !okA || !okB || !okPA || !okPB || pa.Name != a.Name || pb.Name != b.Name || a.Name == b.Name {
			return "", false, nil
		}
		if _, seen := fc.locals[b.Name]; seen {
			return "", false, nil
		}
		names := map[string]bool{a.Name: true, b.Name: true}
		if mentions(init.Rhs[0], names) || mentions(init.Rhs[1], names) || mentions(post.Rhs[1], map[string]bool{a.Name: true}) ||
			mentions(post.Rhs[0], map[string]bool{b.Name: true}) || hasContinue(x.Body.List) {
			return "", false, nil
		}
		assigned, _ := assignedIn(x.Body.List)
		if assigned[a.Name] {
			return "", false, nil // the body moves the loop variable: not this shape (falls back to the `for cond` form)
		}
		// a = a + k / a - k as the post statement of a counted loop
		var postA ast.Stmt
		if be, ok := post.Rhs[0].(*ast.BinaryExpr); ok && (be.Op == token.ADD || be.Op == token.SUB) {
			if id, ok := be.X.(*ast.Ident); ok && id.Name == a.Name {
				tok := token.ADD_ASSIGN
				if be.Op == token.SUB {
					tok = token.SUB_ASSIGN
				}
				postA = &ast.AssignStmt{Lhs: []ast.Expr{pa}, Tok: tok, Rhs: []ast.Expr{be.Y}, TokPos: post.TokPos}
			}
		}
		if postA == nil {
			return "", false, nil
		}
		declB := &ast.AssignStmt{Lhs: []ast.Expr{b}, Tok: token.DEFINE, Rhs: []ast.Expr{init.Rhs[1]}, TokPos: init.TokPos}
		stepB := &ast.AssignStmt{Lhs: []ast.Expr{pb}, Tok: token.ASSIGN, Rhs: []ast.Expr{post.Rhs[1]}, TokPos: post.TokPos}
		// (no scope marker inside the block: the AST walkers of monadic.go only know real nodes; the names the body
		// declares are not visible to `b = f(b)` anyway, and loopCore restores the scope after the body)
		body := append(append([]ast.Stmt{}, x.Body.List...), stepB)
		loop := &ast.ForStmt{For: x.For,
			Init: &ast.AssignStmt{Lhs: []ast.Expr{a}, Tok: token.DEFINE, Rhs: []ast.Expr{init.Rhs[0]}, TokPos: init.TokPos},
			Cond: x.Cond, Post: postA,
			Body: &ast.BlockStmt{Lbrace: x.Body.Lbrace, List: body, Rbrace: x.Body.Rbrace}}
		text, err := fc.mblock(append([]ast.Stmt{declB, loop, &scopeEnd{names: []string{b.Name}}}, rest...), lvl)
		return text, true, err
	}
	return "", false, nil
}

func calledFunc(fc *fnCtx, call *ast.CallExpr) *types.Func {
	switch f := call.Fun.(type) {
	case *ast.Ident:
		fn, _ := fc.p.TypesInfo.Uses[f].(*types.Func)
		return fn
	case *ast.SelectorExpr:
		fn, _ := fc.p.TypesInfo.Uses[f.Sel].(*types.Func)
		return fn
	}
	return nil
}

// ---------- region: uninterpreted interface calls ----------

// opaqueCall: `obj.M(args)` with obj an interface-typed variable: the uninterpreted value `obj_M <integer args>`.
// Arguments of non-integer type are not part of the value's name: they must be plain identifiers / selectors.
func (fc *fnCtx) opaqueCall(call *ast.CallExpr, result types.Type) (pname, ptype string, intArgs []ast.Expr, lt string, ok bool) {
	sel, isSel := call.Fun.(*ast.SelectorExpr)
	if !isSel {
		return
	}
	oid, isId := sel.X.(*ast.Ident)
	if !isId {
		return
	}
	ot := fc.p.TypesInfo.TypeOf(oid)
	if ot == nil {
		return
	}
	if _, isIface := ot.Underlying().(*types.Interface); !isIface {
		return
	}
	if tup, isTup := result.(*types.Tuple); isTup {
		if tup.Len() == 0 {
			return
		}
		result = tup.At(0).Type()
	}
	l, err := leanTypeM(result)
	if err != nil {
		return
	}
	var ats []string
	for _, a := range call.Args {
		if _, lerr := leanType(fc.p.TypesInfo.TypeOf(a)); lerr != nil {
			switch a.(type) {
			case *ast.Ident, *ast.SelectorExpr:
				continue
			}
			return
		}
		intArgs = append(intArgs, a)
		ats = append(ats, "Int")
	}
	return oid.Name + "_" + sel.Sel.Name, strings.Join(append(ats, l), " → "), intArgs, l, true
}

// extPrescanRegion (called by genRegion before the translation): every uninterpreted call in the region becomes a
// PARAMETER `(obj_M : Int → … → τ)` of the region (after the ordinary parameters, in source order).
func (fc *fnCtx) extPrescanRegion(region []ast.Stmt, outs []string) []string {
	var params []string
	// outputs that are fields of struct variables: the fields become locals of the region
	for _, o := range outs {
		for sn, st := range fc.structs {
			if strings.HasPrefix(o, sn+"_") {
				regionFields[fc.m] = true
				_ = st
			}
		}
	}
	if regionFields[fc.m] {
		var names []string
		for sn := range fc.structs {
			names = append(names, sn)
		}
		sortStrings(names)
		for _, sn := range names {
			st := fc.structs[sn]
			for j := 0; j < st.NumFields(); j++ {
				if flt, err := leanTypeM(st.Field(j).Type()); err == nil {
					fc.declare(sn+"_"+st.Field(j).Name(), flt)
				}
			}
		}
		fc.m.tie = true
	}
	// outputs that are slices declared outside the region may be written inside it
	for _, o := range outs {
		for i, pn := range fc.paramNames {
			if pn == o && fc.m.ltype[o] == "List Int" {
				fc.paramNames = append(fc.paramNames[:i:i], fc.paramNames[i+1:]...)
				break
			}
		}
	}
	for _, st := range region {
		ast.Inspect(st, func(n ast.Node) bool {
			call, ok := n.(*ast.CallExpr)
			if !ok {
				return true
			}
			rt := fc.p.TypesInfo.TypeOf(call)
			if rt == nil {
				return true
			}
			pname, ptype, _, _, ok := fc.opaqueCall(call, rt)
			if !ok {
				return true
			}
			if _, seen := fc.locals[pname]; !seen {
				fc.declare(pname, ptype)
				fc.paramNames = append(fc.paramNames, pname)
				params = append(params, fmt.Sprintf("(%s : %s)", pname, ptype))
			}
			return true
		})
	}
	return params
}

// extOpaqueAssign (region only): `x, _ := obj.M(args)` / `x := obj.M(args)`: x is the application of the region parameter.
func (fc *fnCtx) extOpaqueAssign(x *ast.AssignStmt, call *ast.CallExpr, lvl int) (string, bool, error) {
	if x.Tok != token.DEFINE {
		return "", false, nil
	}
	var tgt *ast.Ident
	for _, l := range x.Lhs {
		id, ok := l.(*ast.Ident)
		if !ok {
			return "", false, nil
		}
		if id.Name == "_" {
			continue
		}
		if tgt != nil {
			return "", false, nil
		}
		tgt = id
	}
	if tgt == nil || tgt != x.Lhs[0] {
		return "", false, nil
	}
	pname, ptype, intArgs, lt, ok := fc.opaqueCall(call, fc.p.TypesInfo.TypeOf(call))
	if !ok {
		return "", false, nil
	}
	if _, seen := fc.locals[pname]; !seen || fc.m.ltype[pname] != ptype {
		return "", true, fmt.Errorf("uninterpreted call %s was not seen by the prescan", pname)
	}
	var as []string
	for _, a := range intArgs {
		s, err := fc.expr(a)
		if err != nil {
			return "", true, err
		}
		as = append(as, s)
	}
	var sb strings.Builder
	sb.WriteString(fc.flush(lvl))
	fc.declare(tgt.Name, lt)
	val := fc.name(pname)
	if len(as) > 0 {
		val = "(" + val + " " + strings.Join(as, " ") + ")"
	}
	fmt.Fprintf(&sb, "%slet %s : %s := %s\n", ind(lvl), fc.name(tgt.Name), lt, val)
	return sb.String(), true, nil
}

// ---------- embedded structs ----------

var flatCache = map[*types.Struct]*types.Struct{}

// extFlatten: the struct with the fields of its embedded structs (values or pointers) spliced in, recursively.
// A struct without embedded structs is returned as it is.
func extFlatten(st *types.Struct) *types.Struct {
	if st == nil {
		return nil
	}
	if f, ok := flatCache[st]; ok {
		return f
	}
	any := false
	var vars []*types.Var
	var walk func(s *types.Struct, depth int)
	walk = func(s *types.Struct, depth int) {
		for j := 0; j < s.NumFields(); j++ {
			f := s.Field(j)
			if f.Embedded() && depth < 4 {
				t := f.Type()
				if pt, ok := t.Underlying().(*types.Pointer); ok {
					t = pt.Elem()
				}
				if in, ok := t.Underlying().(*types.Struct); ok {
					any = true
					walk(in, depth+1)
					continue
				}
			}
			vars = append(vars, f)
		}
	}
	walk(st, 0)
	res := st
	if any {
		seen := map[string]bool{}
		var uniq []*types.Var
		for _, v := range vars {
			if !seen[v.Name()] { // the shallowest / first declaration wins, as in Go's selector rules for the cases used here
				seen[v.Name()] = true
				uniq = append(uniq, v)
			}
		}
		res = types.NewStruct(uniq, nil)
	}
	flatCache[st] = res
	return res
}

// ---------- regions ----------

// regionFields: regions whose struct variables' fields are locals (set by the prescan)
var regionFields = map[*mstate]bool{}

// extRegionOffsets: `name+k` -> (`name`, k)
func extRegionOffsets(b string) (string, int) {
	if i := strings.LastIndex(b, "+"); i > 0 {
		k := 0
		if _, err := fmt.Sscanf(b[i+1:], "%d", &k); err == nil && k >= 0 {
			return b[:i], k
		}
	}
	return b, 0
}

// extRegionCond: `F@if:<k>>` — the condition of the k-th top-level `if` statement of F (1-based) as a Bool-valued
// function of the parameters / receiver fields it mentions.
func extRegionCond(e entry, fd *ast.FuncDecl, spec string) (*ast.IfStmt, bool, error) {
	if !strings.HasPrefix(spec, "if:") {
		return nil, false, nil
	}
	k := 0
	if _, err := fmt.Sscanf(spec[3:], "%d", &k); err != nil || k < 1 {
		return nil, true, fmt.Errorf("bad region spec %s", spec)
	}
	n := 0
	for _, st := range fd.Body.List {
		if is, ok := st.(*ast.IfStmt); ok {
			n++
			if n == k {
				if is.Init != nil {
					return nil, true, fmt.Errorf("if with init")
				}
				return is, true, nil
			}
		}
	}
	return nil, true, fmt.Errorf("function has no %d-th top-level if", k)
}

// extGenCond emits `def <lean> <params> : Res Bool := .ok (<cond>)` for the condition of `is`.
func extGenCond(p *packages.Package, e entry, fd *ast.FuncDecl, fname, rng string, is *ast.IfStmt) (string, error) {
	fc := newMCtx(p, e.module, e.lean)
	fc.m.region = true
	seen := map[*types.Var]bool{}
	var fvs []*types.Var
	ast.Inspect(is.Cond, func(n ast.Node) bool {
		if id, ok := n.(*ast.Ident); ok {
			if obj, ok := p.TypesInfo.Uses[id].(*types.Var); ok && !obj.IsField() && obj.Pkg() != nil && obj.Parent() != obj.Pkg().Scope() && !seen[obj] {
				seen[obj] = true
				fvs = append(fvs, obj)
			}
		}
		return true
	})
	sort.Slice(fvs, func(i, j int) bool { return fvs[i].Pos() < fvs[j].Pos() })
	var params []string
	type sparam struct {
		name string
		st   *types.Struct
		at   int
	}
	var sparams []sparam
	for _, obj := range fvs {
		lt, err := leanTypeM(obj.Type())
		if err != nil {
			if st := structOf(obj.Type()); st != nil {
				fc.structs[obj.Name()] = st
				sparams = append(sparams, sparam{obj.Name(), st, len(params)})
				continue
			}
			return "", fmt.Errorf("condition mentions %s of type %s", obj.Name(), obj.Type())
		}
		params = append(params, fmt.Sprintf("(%s : %s)", leanIdent(obj.Name()), lt))
		fc.declare(obj.Name(), lt)
		fc.paramNames = append(fc.paramNames, obj.Name())
	}
	cond, err := fc.expr(is.Cond)
	if err != nil {
		return "", err
	}
	if len(fc.m.pre) > 0 {
		return "", fmt.Errorf("checked operation in the condition")
	}
	for i := len(sparams) - 1; i >= 0; i-- {
		sp := sparams[i]
		var fps []string
		for j := 0; j < sp.st.NumFields(); j++ {
			key := sp.name + "_" + sp.st.Field(j).Name()
			if lt, ok := fc.fieldsUsed[key]; ok {
				fps = append(fps, fmt.Sprintf("(%s : %s)", key, lt))
			}
		}
		params = append(params[:sp.at], append(fps, params[sp.at:]...)...)
	}
	fc.m.retType = "Bool"
	return fc.emit(e.pkg+"."+fname+" (condition "+rng+")", params, "  .ok ("+cond+")"), nil
}
