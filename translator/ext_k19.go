// Work package k19 — NUMBER-POLYMORPHIC kernels (kind `funcn`).
//
//	funcn   <LeanModule> <leanName> <import/path> <GoFunc | Recv.Method>
//
// exactly `funcm` (monadic.go), except that float64 is not Lean `Float` but an ABSTRACT number type:
// every emitted definition (loop bodies included) takes `{F : Type} (ops : Gzx.GoM.NumOps F)` first, and
//   - `float64` is `F`, `[]float64` is `List F` (checked reads / writes `Gzx.GoM.idxA` / `setIdxA`, `len` = `lenA`);
//     struct fields of type float64 (`p.a11`) are parameters of type `F` like integer fields, a `*T` result whose fields
//     are float64 is returned as the tuple of its fields;
//   - `a + b`, `a - b`, `a * b`, `a / b`, `-a` on float64 are `ops.add / sub / mul / div / neg` IN THE SOURCE'S
//     ASSOCIATION AND OPERAND ORDER (nothing is re-associated: float64 arithmetic is not associative);
//   - `float64(<int>)` is `ops.ofInt`, `int(<float64>)` is `ops.toInt`, a float64 constant is `ops.ofInt n` when it is an
//     integer and `ops.div (ops.ofInt n) (ops.ofInt d)` for the exact small rational n/d (0.5 = 1/2: the correctly
//     rounded quotient IS the constant);
//   - `a == b`, `a != b`, `a < b` … on float64 are `ops.eq / lt / le` (Bool).
//
// The same generated syntax is then instantiated with `Gzx.GoM.floatOps` (Lean `Float` = IEEE binary64: what the Go
// code computes), with exact rationals (`ratOps`: what the hand-written models compute) and — in GzxM — with an
// arbitrary field (what the algebra theorems are about).  Obligations/K19*.lean prove the instantiations equal to the
// models, so that the theorems about the models are theorems about the regenerated source.
//
// NOT implemented (needed for DefaultGridSampler.SampleGridWithTransform as one kernel): calls the subset cannot
// translate as ABSTRACT CALLEES — `transform.TransformPoints(points)`, `GridSampler_checkAndNudgePoints(image, points)`,
// `image.Get(px, py)`, `bits.Set(x/2, y)` would become fields of a generated environment structure that every emitted
// definition takes next to `ops` (the post-processing below already threads `ops` that way), local objects (`bits`) an
// abstract state type; `make([]float64, n)` would be `Gzx.GoM.mkA (ops.ofInt 0) n`.
package main

import (
	"fmt"
	"go/ast"
	"go/constant"
	"go/token"
	"go/types"
	"regexp"
	"strings"

	"golang.org/x/tools/go/packages"
)

// k19Poly: a `funcn` / `regionn` entry is being translated
var k19Poly bool

const k19Header = "{F : Type} (ops : Gzx.GoM.NumOps F)"

func isListLT(lt string) bool { return lt == "List Int" || lt == "List F" }

func k19Idx(lt string) string {
	if lt == "List F" {
		return "Gzx.GoM.idxA"
	}
	return "Gzx.GoM.idx"
}

func k19SetIdx(lt string) string {
	if lt == "List F" {
		return "Gzx.GoM.setIdxA"
	}
	return "Gzx.GoM.setIdx"
}

// k19Type: Lean type of float64 / []float64 in a number-polymorphic kernel
func k19Type(t types.Type) (string, bool) {
	if !k19Poly || t == nil {
		return "", false
	}
	if isFloat(t) {
		return "F", true
	}
	switch u := t.Underlying().(type) {
	case *types.Slice:
		if isFloat(u.Elem()) {
			return "List F", true
		}
	case *types.Array:
		if isFloat(u.Elem()) {
			return "List F", true
		}
	}
	return "", false
}

func k19IsFloatSlice(t types.Type) bool {
	lt, ok := k19Type(t)
	return ok && lt == "List F"
}

func k19NeedNum(module string) {
	for _, i := range extraImports[module] {
		if i == "Gzx.GoMNum" {
			return
		}
	}
	extraImports[module] = append(extraImports[module], "Gzx.GoMNum")
}

// k19Expr: the expression forms that involve float64 values.  handled=false: the ordinary translation applies.
func (fc *fnCtx) k19Expr(ex ast.Expr) (string, bool, error) {
	if fc.m == nil {
		return "", false, nil
	}
	t := fc.p.TypesInfo.TypeOf(ex)
	if isFloat(t) {
		return fc.k19Float(ex)
	}
	switch x := ex.(type) {
	case *ast.ParenExpr:
		return fc.k19Expr(x.X)
	case *ast.CallExpr:
		// int(<float64>)
		if tv, ok := fc.p.TypesInfo.Types[x.Fun]; ok && tv.IsType() && len(x.Args) == 1 {
			if lt, err := leanType(tv.Type); err == nil && lt == "Int" && isFloat(fc.p.TypesInfo.TypeOf(x.Args[0])) {
				tb, _ := tv.Type.Underlying().(*types.Basic)
				if tb == nil || (tb.Kind() != types.Int && tb.Kind() != types.Int64) {
					return "", true, fmt.Errorf("conversion of a float64 to %s", tv.Type)
				}
				f, err := fc.expr(x.Args[0])
				if err != nil {
					return "", true, err
				}
				return "(ops.toInt " + f + ")", true, nil
			}
		}
		// len(<[]float64>)
		if id, ok := x.Fun.(*ast.Ident); ok && id.Name == "len" && len(x.Args) == 1 && k19IsFloatSlice(fc.p.TypesInfo.TypeOf(x.Args[0])) {
			if _, isBuiltin := fc.p.TypesInfo.Uses[id].(*types.Builtin); isBuiltin {
				l, err := fc.lexpr(x.Args[0])
				if err != nil {
					return "", true, err
				}
				return "(Gzx.GoM.lenA " + l + ")", true, nil
			}
		}
	case *ast.BinaryExpr:
		if isFloat(fc.p.TypesInfo.TypeOf(x.X)) || isFloat(fc.p.TypesInfo.TypeOf(x.Y)) {
			var form string
			switch x.Op {
			case token.EQL:
				form = "(ops.eq %s %s)"
			case token.NEQ:
				form = "(!(ops.eq %s %s))"
			case token.LSS:
				form = "(ops.lt %s %s)"
			case token.LEQ:
				form = "(ops.le %s %s)"
			case token.GTR:
				form = "(ops.lt %[2]s %[1]s)"
			case token.GEQ:
				form = "(ops.le %[2]s %[1]s)"
			default:
				return "", false, nil
			}
			a, err := fc.expr(x.X)
			if err != nil {
				return "", true, err
			}
			b, err := fc.expr(x.Y)
			if err != nil {
				return "", true, err
			}
			return fmt.Sprintf(form, a, b), true, nil
		}
	case *ast.IndexExpr:
		_ = x
	}
	return "", false, nil
}

// k19Float: a float64-valued expression over the abstract number type
func (fc *fnCtx) k19Float(ex ast.Expr) (string, bool, error) {
	fail := func(f string, a ...interface{}) (string, bool, error) { return "", true, fmt.Errorf(f, a...) }
	if tv, ok := fc.p.TypesInfo.Types[ex]; ok && tv.Value != nil {
		r := constant.ToFloat(tv.Value)
		if r.Kind() == constant.Unknown {
			return fail("float constant")
		}
		num, den := constant.Num(r), constant.Denom(r)
		n, ok1 := constant.Int64Val(num)
		d, ok2 := constant.Int64Val(den)
		lim := int64(1) << 53
		if num.Kind() != constant.Int || den.Kind() != constant.Int || !ok1 || !ok2 || n >= lim || n <= -lim || d >= lim || d <= 0 {
			return fail("float constant is not a small rational")
		}
		if d == 1 {
			return fmt.Sprintf("(ops.ofInt (%d))", n), true, nil
		}
		return fmt.Sprintf("(ops.div (ops.ofInt (%d)) (ops.ofInt %d))", n, d), true, nil
	}
	switch x := ex.(type) {
	case *ast.ParenExpr:
		return fc.k19Float(x.X)
	case *ast.Ident, *ast.SelectorExpr:
		return "", false, nil // a local / parameter / struct field of type F: the ordinary path
	case *ast.IndexExpr:
		if !k19IsFloatSlice(fc.p.TypesInfo.TypeOf(x.X)) {
			return fail("index into %s", fc.p.TypesInfo.TypeOf(x.X))
		}
		base, err := fc.lexpr(x.X)
		if err != nil {
			return "", true, err
		}
		i, err := fc.expr(x.Index)
		if err != nil {
			return "", true, err
		}
		return fc.bind(fmt.Sprintf("Gzx.GoM.idxA %s %s", base, i)), true, nil
	case *ast.BinaryExpr:
		op := map[token.Token]string{token.ADD: "add", token.SUB: "sub", token.MUL: "mul", token.QUO: "div"}[x.Op]
		if op == "" {
			return fail("float operator %s", x.Op)
		}
		a, err := fc.expr(x.X)
		if err != nil {
			return "", true, err
		}
		b, err := fc.expr(x.Y)
		if err != nil {
			return "", true, err
		}
		return fmt.Sprintf("(ops.%s %s %s)", op, a, b), true, nil
	case *ast.UnaryExpr:
		switch x.Op {
		case token.SUB:
			a, err := fc.expr(x.X)
			if err != nil {
				return "", true, err
			}
			return "(ops.neg " + a + ")", true, nil
		case token.ADD:
			s, err := fc.expr(x.X)
			return s, true, err
		}
		return fail("float unary %s", x.Op)
	case *ast.CallExpr:
		if tv, ok := fc.p.TypesInfo.Types[x.Fun]; ok && tv.IsType() && len(x.Args) == 1 {
			b, _ := tv.Type.Underlying().(*types.Basic)
			if b == nil || b.Kind() != types.Float64 {
				return fail("conversion to %s", tv.Type)
			}
			src := fc.p.TypesInfo.TypeOf(x.Args[0])
			if isFloat(src) {
				s, err := fc.expr(x.Args[0])
				return s, true, err
			}
			if lt, err := leanType(src); err == nil && lt == "Int" && unsignedBits(src) == 0 {
				a, err := fc.expr(x.Args[0])
				if err != nil {
					return "", true, err
				}
				return "(ops.ofInt " + a + ")", true, nil
			}
			return fail("conversion of %s to float64", src)
		}
		return "", false, nil // a call: the ordinary path (translated callees / abstract callees)
	}
	return fail("unsupported float expression %T", ex)
}

var k19BodyRe = regexp.MustCompile(`\b([A-Za-z_][A-Za-z0-9_]*_body[0-9]+)\b`)

// genFuncN: `funcm` with k19Poly on; afterwards every definition of the text gets the `{F} (ops)` header and
// every use of a loop body / of the definition by a later kernel passes `ops`.
func genFuncN(p *packages.Package, e entry) (string, error) {
	k19Poly = true
	defer func() { k19Poly = false }()
	k19NeedNum(e.module)
	var text string
	var err error
	text, err = genFuncM(p, e)
	if err != nil {
		return "", err
	}
	// loop bodies: uses first (`name_bodyK` -> `name_bodyK ops`), then the definition sites
	text = k19BodyRe.ReplaceAllString(text, "$1 ops")
	text = regexp.MustCompile(`(?m)^def ([A-Za-z_][A-Za-z0-9_]*_body[0-9]+) ops `).ReplaceAllString(text, "def $1 "+k19Header+" ")
	text = strings.Replace(text, "\ndef "+e.lean+" ", "\ndef "+e.lean+" "+k19Header+" ", 1)
	// later kernels of the module call this one with `ops`
	for _, key := range []string{e.module + "|" + e.pkg + "." + e.name} {
		if ci, ok := callees[key]; ok && !strings.HasSuffix(ci.lean, " ops") {
			ci.lean += " ops"
			callees[key] = ci
		}
		if ci, ok := ctorCallees[key]; ok && !strings.HasSuffix(ci.lean, " ops") {
			ci.lean += " ops"
			ctorCallees[key] = ci
		}
		if mi, ok := methodCallees[key]; ok && !strings.HasSuffix(mi.lean, " ops") {
			mi.lean += " ops"
			methodCallees[key] = mi
		}
	}
	return text, nil
}

var _ = ast.Inspect
