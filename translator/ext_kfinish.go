// Work package kfinish — kernels with ABSTRACT CALLEES (kind `funce`).
//
//	funce   <LeanModule> <leanName> <import/path> <GoFunc | Recv.Method>
//
// A function of the counted-loop subset whose calls the translator does NOT follow: every call of a function / method that is
// not a builtin becomes a FIELD of a generated environment structure `<leanName>_Env (F S : Type)` that the definition takes
// next to `ops : Gzx.GoM.NumOps F` (float64 is the abstract number type `F` of kind `funcn`, ext_k19.go; `S` is the abstract
// type of the objects the function creates through such calls).  The theorems instantiate the environment with the regenerated
// and tied kernels / the models of the callees.  Rules (everything else is `untranslatable`, never guessed):
//
//   - parameters of integer / float64 type are parameters; parameters of pointer, struct or interface type (`image`,
//     `transform`, the receiver) are OBJECTS: they are not passed, a method call `obj.M(args)` on them is the field `<Type>_M`
//     applied to the integer / float / slice arguments — a function of its arguments only (the function must not write them);
//
//   - `x, _ := pkg.F(args)` / `x := pkg.F(args)` with a pointer result creates a LOCAL OBJECT `x : S` (`env.F args`); a
//     statement `x.M(args)` on a local object is the state transformer `env.<Type>_M x args : S` (fields are named after the
//     receiver's TYPE, so renaming a variable keeps the generated text; one field must not stand for two different objects);
//
//   - a call that receives a slice-typed local may write it: a statement `F(…, xs, …)` / `obj.M(…, xs, …)` REBINDS every slice
//     argument (the field returns the new slices after the Go results), `e := F(…, xs)` with an `error` result yields
//     `(e ≠ nil : Bool, xs')`; arguments that are objects are dropped (the field is closed over them);
//
//   - results `(T, error)`: `return nil, <err>` is `none`, `return v, nil` is `some v`;
//
//   - `[]bool` / `[][]bool` parameters are `List Bool` / `List (List Bool)` with checked reads (`m[i]`, `row[j]`, `len`); a
//     `[]bool` local must be a row `row := m[i]`; `var a, b int` declares zero integers; a conditional block with checked
//     operations is a `Res` of the variables it rebinds (evaluated only when the condition holds);
//
//   - statements: `if c { return nil, err }`, `if c { <rebinding statements> }`, `x := e`, `xs[i] = e`, `xs := make([]float64, n)`,
//     counted loops `for v := a; v < b; v++ | v += k` (any nesting; the body is a lambda, the variables it rebinds are the
//     loop state), `return`; expressions: integer arithmetic (`/` `%` by non-zero constants), comparisons, `&&` `||`,
//     `len`, checked `xs[i]`, `float64(i)`, `int(f)`, float `+ - * /` and constants as in `funcn`, `e != nil` of an error local.
//
//   - `return F(args)` of an abstract callee with the function's own result types `(T, error)`: the field yields `Option S`;
//
//   - a function with ONE object result (`*T`, no error) is `Res S`: `return <object expression>`, where an object expression is a
//     local object or a call of an abstract callee that yields an object; a method of a call result `F(…).M(…)` is the field `M`
//     applied to that result (a call chain is a composition of fields).
//
// Hook: one `case "funce"` in main.go.  Gate: module names starting with `K19b` / `K16c` (`kfinishOn`).
package main

import (
	"fmt"
	"go/ast"
	"go/constant"
	"go/token"
	"go/types"
	"strings"

	"golang.org/x/tools/go/packages"
)

func kfinishOn() bool {
	return strings.HasPrefix(curModule, "K19b") || strings.HasPrefix(curModule, "K16c")
}

type kfinBind struct{ v, op string }

type kfinCtx struct {
	p        *packages.Package
	lean     string
	envNames []string
	envTypes map[string]string
	locals   map[string]string // Go name -> Lean type
	objs     map[string]bool   // parameter objects
	tmp      int
	depth    int // loop nesting
	usesS    bool
	single   bool                    // the function returns one object (no error): `Res S`
	fieldObj map[string]types.Object // method field -> the object it is called on
}

func (c *kfinCtx) fail(f string, a ...interface{}) error { return fmt.Errorf(f, a...) }

func (c *kfinCtx) try() string {
	if c.depth > 0 {
		return "Gzx.GoM.tryC"
	}
	return "Gzx.GoM.tryR"
}

// kfinType: Lean type of a Go value type ("" = an object)
func (c *kfinCtx) kfinType(t types.Type) string {
	if t == nil {
		return ""
	}
	if isFloat(t) {
		return "F"
	}
	if b, ok := t.Underlying().(*types.Basic); ok {
		if b.Info()&types.IsInteger != 0 {
			return "Int"
		}
		if b.Info()&types.IsBoolean != 0 {
			return "Bool"
		}
		return ""
	}
	if s, ok := t.Underlying().(*types.Slice); ok && isFloat(s.Elem()) {
		return "List F"
	}
	if s, ok := t.Underlying().(*types.Slice); ok {
		if b, ok := s.Elem().Underlying().(*types.Basic); ok && b.Info()&types.IsBoolean != 0 {
			return "List Bool"
		}
		if in, ok := s.Elem().Underlying().(*types.Slice); ok {
			if b, ok := in.Elem().Underlying().(*types.Basic); ok && b.Info()&types.IsBoolean != 0 {
				return "List (List Bool)"
			}
		}
	}
	if types.Identical(t, types.Universe.Lookup("error").Type()) {
		return "Bool"
	}
	return ""
}

func kfinIsObject(t types.Type) bool {
	if t == nil {
		return false
	}
	if types.Identical(t, types.Universe.Lookup("error").Type()) {
		return false
	}
	switch u := t.Underlying().(type) {
	case *types.Pointer:
		_, ok := u.Elem().Underlying().(*types.Struct)
		return ok
	case *types.Struct, *types.Interface:
		return true
	}
	return false
}

func (c *kfinCtx) envField(name, typ string) error {
	if old, ok := c.envTypes[name]; ok {
		if old != typ {
			return c.fail("abstract callee %s used at two types (%s / %s)", name, old, typ)
		}
		return nil
	}
	c.envTypes[name] = typ
	c.envNames = append(c.envNames, name)
	return nil
}

// objTypeName: the name of the (pointer-to-)named type of an object expression
func (c *kfinCtx) objTypeName(e ast.Expr) string {
	t := c.p.TypesInfo.TypeOf(e)
	if t == nil {
		return ""
	}
	if pt, ok := t.(*types.Pointer); ok {
		t = pt.Elem()
	}
	if nt, ok := t.(*types.Named); ok {
		return nt.Obj().Name()
	}
	return ""
}

// callee: name of the environment field of a call, whether the receiver is a local object, and the receiver's name.
// Methods are named `<ReceiverType>_<Method>` (not after the variable: renaming a local keeps the generated text); one field
// name must not stand for two different objects.
func (c *kfinCtx) callee(call *ast.CallExpr) (field string, localRecv string, err error) {
	switch f := call.Fun.(type) {
	case *ast.Ident:
		if _, ok := c.p.TypesInfo.Uses[f].(*types.Func); ok {
			return f.Name, "", nil
		}
	case *ast.SelectorExpr:
		if id, ok := f.X.(*ast.Ident); ok {
			if _, isPkg := c.p.TypesInfo.Uses[id].(*types.PkgName); isPkg {
				return f.Sel.Name, "", nil
			}
			tn := c.objTypeName(id)
			if tn == "" {
				return "", "", c.fail("receiver %s has no named type", id.Name)
			}
			name := tn + "_" + f.Sel.Name
			obj := c.p.TypesInfo.Uses[id]
			if c.fieldObj == nil {
				c.fieldObj = map[string]types.Object{}
			}
			if old, ok := c.fieldObj[name]; ok && old != obj {
				return "", "", c.fail("method %s called on two different objects", name)
			}
			if c.objs[id.Name] {
				c.fieldObj[name] = obj
				return name, "", nil
			}
			if c.locals[id.Name] == "S" {
				c.fieldObj[name] = obj
				return name, id.Name, nil
			}
		}
	}
	return "", "", c.fail("call form")
}

// callArgs: Lean arguments (objects dropped), their types, and the slice locals among them
func (c *kfinCtx) callArgs(call *ast.CallExpr, pre *[]kfinBind) (args, typs, slices []string, err error) {
	for _, a := range call.Args {
		at := c.p.TypesInfo.TypeOf(a)
		if id, ok := a.(*ast.Ident); ok && (c.objs[id.Name] || (kfinIsObject(at) && c.locals[id.Name] != "S")) {
			continue
		}
		lt := c.kfinType(at)
		if id, ok := a.(*ast.Ident); ok && c.locals[id.Name] == "S" {
			lt = "S"
		}
		if lt == "" {
			return nil, nil, nil, c.fail("argument type %v of an abstract callee", at)
		}
		s, e := c.expr(a, pre)
		if e != nil {
			return nil, nil, nil, e
		}
		if lt == "List F" {
			id, ok := a.(*ast.Ident)
			if !ok {
				return nil, nil, nil, c.fail("slice argument of an abstract callee is not a local")
			}
			slices = append(slices, id.Name)
		}
		args = append(args, s)
		typs = append(typs, lt)
	}
	return
}

func (c *kfinCtx) fresh() string {
	c.tmp++
	return fmt.Sprintf("t%d", c.tmp)
}

// expr: a value of type Int / F / Bool; checked operations are appended to pre
func (c *kfinCtx) expr(ex ast.Expr, pre *[]kfinBind) (string, error) {
	if tv, ok := c.p.TypesInfo.Types[ex]; ok && tv.Value != nil {
		if isFloat(tv.Type) || tv.Value.Kind() == constant.Float {
			r := constant.ToFloat(tv.Value)
			n, nok := constant.Int64Val(constant.Num(r))
			d, dok := constant.Int64Val(constant.Denom(r))
			if !nok || !dok {
				return "", c.fail("float constant")
			}
			if d == 1 {
				return fmt.Sprintf("(ops.ofInt %s)", kfinInt(n)), nil
			}
			return fmt.Sprintf("(ops.div (ops.ofInt %s) (ops.ofInt %d))", kfinInt(n), d), nil
		}
		if tv.Value.Kind() == constant.Int {
			n, ok := constant.Int64Val(tv.Value)
			if !ok {
				return "", c.fail("integer constant")
			}
			return kfinInt(n), nil
		}
	}
	switch x := ex.(type) {
	case *ast.ParenExpr:
		return c.expr(x.X, pre)
	case *ast.Ident:
		if _, ok := c.locals[x.Name]; ok {
			return x.Name, nil
		}
		return "", c.fail("identifier %s", x.Name)
	case *ast.UnaryExpr:
		a, err := c.expr(x.X, pre)
		if err != nil {
			return "", err
		}
		switch x.Op {
		case token.SUB:
			if isFloat(c.p.TypesInfo.TypeOf(x.X)) {
				return "(ops.neg " + a + ")", nil
			}
			return "(-" + a + ")", nil
		case token.NOT:
			return "(!" + a + ")", nil
		}
		return "", c.fail("unary %s", x.Op)
	case *ast.BinaryExpr:
		// e != nil / e == nil of an error local
		if id, ok := x.X.(*ast.Ident); ok && c.locals[id.Name] == "Bool" {
			if n, ok := x.Y.(*ast.Ident); ok && n.Name == "nil" {
				if x.Op == token.NEQ {
					return id.Name, nil
				}
				if x.Op == token.EQL {
					return "(!" + id.Name + ")", nil
				}
			}
		}
		if x.Op == token.LOR || x.Op == token.LAND {
			// both operands are evaluated here: they must be free of checked operations
			var p2 []kfinBind
			a, err := c.expr(x.X, pre)
			if err != nil {
				return "", err
			}
			b, err := c.expr(x.Y, &p2)
			if err != nil {
				return "", err
			}
			if len(p2) > 0 {
				return "", c.fail("checked operation on the right of a short-circuit operator")
			}
			op := "||"
			if x.Op == token.LAND {
				op = "&&"
			}
			return fmt.Sprintf("(%s %s %s)", a, op, b), nil
		}
		a, err := c.expr(x.X, pre)
		if err != nil {
			return "", err
		}
		b, err := c.expr(x.Y, pre)
		if err != nil {
			return "", err
		}
		if isFloat(c.p.TypesInfo.TypeOf(x.X)) {
			switch x.Op {
			case token.ADD:
				return fmt.Sprintf("(ops.add %s %s)", a, b), nil
			case token.SUB:
				return fmt.Sprintf("(ops.sub %s %s)", a, b), nil
			case token.MUL:
				return fmt.Sprintf("(ops.mul %s %s)", a, b), nil
			case token.QUO:
				return fmt.Sprintf("(ops.div %s %s)", a, b), nil
			case token.LSS:
				return fmt.Sprintf("(ops.lt %s %s)", a, b), nil
			case token.LEQ:
				return fmt.Sprintf("(ops.le %s %s)", a, b), nil
			case token.GTR:
				return fmt.Sprintf("(ops.lt %s %s)", b, a), nil
			case token.GEQ:
				return fmt.Sprintf("(ops.le %s %s)", b, a), nil
			case token.EQL:
				return fmt.Sprintf("(ops.eq %s %s)", a, b), nil
			}
			return "", c.fail("float operator %s", x.Op)
		}
		switch x.Op {
		case token.ADD, token.SUB, token.MUL:
			return fmt.Sprintf("(%s %s %s)", a, x.Op, b), nil
		case token.QUO, token.REM:
			tv := c.p.TypesInfo.Types[x.Y]
			if tv.Value == nil || constant.Sign(tv.Value) == 0 {
				return "", c.fail("division by a non-constant")
			}
			if x.Op == token.QUO {
				return fmt.Sprintf("(Int.tdiv %s %s)", a, b), nil
			}
			return fmt.Sprintf("(Int.tmod %s %s)", a, b), nil
		case token.LSS, token.LEQ, token.GTR, token.GEQ:
			return fmt.Sprintf("(decide (%s %s %s))", a, x.Op, b), nil
		case token.EQL:
			return fmt.Sprintf("(%s == %s)", a, b), nil
		case token.NEQ:
			return fmt.Sprintf("(%s != %s)", a, b), nil
		}
		return "", c.fail("operator %s", x.Op)
	case *ast.IndexExpr:
		id, ok := x.X.(*ast.Ident)
		if !ok || !strings.HasPrefix(c.locals[id.Name], "List ") {
			return "", c.fail("index expression")
		}
		i, err := c.expr(x.Index, pre)
		if err != nil {
			return "", err
		}
		v := c.fresh()
		*pre = append(*pre, kfinBind{v, fmt.Sprintf("Gzx.GoM.idxA %s %s", id.Name, i)})
		return v, nil
	case *ast.CallExpr:
		// conversions and builtins
		if tv, ok := c.p.TypesInfo.Types[x.Fun]; ok && tv.IsType() && len(x.Args) == 1 {
			a, err := c.expr(x.Args[0], pre)
			if err != nil {
				return "", err
			}
			from, to := c.kfinType(c.p.TypesInfo.TypeOf(x.Args[0])), c.kfinType(tv.Type)
			switch {
			case from == "Int" && to == "F":
				return "(ops.ofInt " + a + ")", nil
			case from == "F" && to == "Int":
				if b, _ := tv.Type.Underlying().(*types.Basic); b == nil || (b.Kind() != types.Int && b.Kind() != types.Int64) {
					return "", c.fail("conversion of a float64 to %s", tv.Type)
				}
				return "(ops.toInt " + a + ")", nil
			case from == "Int" && to == "Int":
				if b, _ := tv.Type.Underlying().(*types.Basic); b != nil && (b.Kind() == types.Int || b.Kind() == types.Int64) {
					return a, nil
				}
			}
			return "", c.fail("conversion")
		}
		if id, ok := x.Fun.(*ast.Ident); ok {
			if _, isB := c.p.TypesInfo.Uses[id].(*types.Builtin); isB {
				if id.Name == "len" && len(x.Args) == 1 {
					if a, ok := x.Args[0].(*ast.Ident); ok && strings.HasPrefix(c.locals[a.Name], "List ") {
						return "(Gzx.GoM.lenA " + a.Name + ")", nil
					}
					// len(xs[i]) of a list of lists: the checked row read, then its length
					if ix, ok := x.Args[0].(*ast.IndexExpr); ok {
						if lt := c.kfinType(c.p.TypesInfo.TypeOf(ix)); strings.HasPrefix(lt, "List ") {
							r, err := c.expr(ix, pre)
							if err != nil {
								return "", err
							}
							return "(Gzx.GoM.lenA " + r + ")", nil
						}
					}
				}
				return "", c.fail("builtin %s", id.Name)
			}
		}
		// abstract callee in an expression: a function of its arguments (objects that are parameters only)
		field, recv, err := c.callee(x)
		if err != nil {
			return "", err
		}
		if recv != "" {
			return "", c.fail("method of a local object in an expression")
		}
		args, typs, slices, err := c.callArgs(x, pre)
		if err != nil {
			return "", err
		}
		if len(slices) > 0 {
			return "", c.fail("abstract callee with a slice argument in an expression")
		}
		rt := c.kfinType(c.p.TypesInfo.TypeOf(x))
		if rt == "" || rt == "List F" {
			return "", c.fail("result type of abstract callee %s", field)
		}
		if err := c.envField(field, strings.Join(append(typs, rt), " → ")); err != nil {
			return "", err
		}
		if len(args) == 0 {
			return "env." + field, nil
		}
		return "(env." + field + " " + strings.Join(args, " ") + ")", nil
	}
	return "", c.fail("expression form %T", ex)
}

// objExpr: an expression whose value is an object of the abstract type S: a local object, or a call of an abstract callee
// that returns one (a method of a call result `F(…).M(…)` passes that result on as the first argument of the field `M`)
func (c *kfinCtx) objExpr(ex ast.Expr, pre *[]kfinBind) (string, error) {
	switch x := ex.(type) {
	case *ast.ParenExpr:
		return c.objExpr(x.X, pre)
	case *ast.Ident:
		if c.locals[x.Name] == "S" {
			return x.Name, nil
		}
	case *ast.CallExpr:
		if !kfinIsObject(c.p.TypesInfo.TypeOf(x)) {
			return "", c.fail("call does not yield an object")
		}
		field, recvArg := "", ""
		if sel, ok := x.Fun.(*ast.SelectorExpr); ok {
			if inner, ok := sel.X.(*ast.CallExpr); ok {
				r, err := c.objExpr(inner, pre)
				if err != nil {
					return "", err
				}
				field, recvArg = sel.Sel.Name, r
				if tn := c.objTypeName(inner); tn != "" {
					field = tn + "_" + sel.Sel.Name
				}
			}
		}
		if field == "" {
			f, recv, err := c.callee(x)
			if err != nil {
				return "", err
			}
			field, recvArg = f, recv
		}
		args, typs, slices, err := c.callArgs(x, pre)
		if err != nil {
			return "", err
		}
		if len(slices) > 0 {
			return "", c.fail("object-valued call with a slice argument")
		}
		if recvArg != "" {
			args = append([]string{recvArg}, args...)
			typs = append([]string{"S"}, typs...)
		}
		c.usesS = true
		if err := c.envField(field, strings.Join(append(typs, "S"), " → ")); err != nil {
			return "", err
		}
		if len(args) == 0 {
			return "env." + field, nil
		}
		return "(env." + field + " " + strings.Join(args, " ") + ")", nil
	}
	return "", c.fail("object expression %T", ex)
}

func kfinInt(n int64) string {
	if n < 0 {
		return fmt.Sprintf("(%d)", n)
	}
	return fmt.Sprintf("%d", n)
}

func kfinInd(lvl int) string { return strings.Repeat("  ", lvl) }

func (c *kfinCtx) flush(pre []kfinBind, lvl int) string {
	var sb strings.Builder
	for _, b := range pre {
		fmt.Fprintf(&sb, "%s%s (%s) fun %s =>\n", kfinInd(lvl), c.try(), b.op, b.v)
	}
	return sb.String()
}

// assigned: the names (declared outside) that a statement list rebinds, in order of first occurrence
func (c *kfinCtx) assigned(stmts []ast.Stmt) []string {
	var out []string
	seen := map[string]bool{}
	add := func(n string) {
		if _, ok := c.locals[n]; ok && !seen[n] {
			seen[n] = true
			out = append(out, n)
		}
	}
	sliceArgs := func(call *ast.CallExpr) {
		for _, a := range call.Args {
			if id, ok := a.(*ast.Ident); ok && c.locals[id.Name] == "List F" {
				add(id.Name)
			}
		}
		if sel, ok := call.Fun.(*ast.SelectorExpr); ok {
			if id, ok := sel.X.(*ast.Ident); ok && c.locals[id.Name] == "S" {
				add(id.Name)
			}
		}
	}
	var walk func(ss []ast.Stmt)
	walk = func(ss []ast.Stmt) {
		for _, s := range ss {
			switch x := s.(type) {
			case *ast.AssignStmt:
				if x.Tok != token.DEFINE {
					for _, l := range x.Lhs {
						switch lv := l.(type) {
						case *ast.Ident:
							add(lv.Name)
						case *ast.IndexExpr:
							if id, ok := lv.X.(*ast.Ident); ok {
								add(id.Name)
							}
						}
					}
				}
				for _, r := range x.Rhs {
					if call, ok := r.(*ast.CallExpr); ok {
						if tv, ok := c.p.TypesInfo.Types[call.Fun]; !ok || !tv.IsType() {
							sliceArgs(call)
						}
					}
				}
			case *ast.ExprStmt:
				if call, ok := x.X.(*ast.CallExpr); ok {
					sliceArgs(call)
				}
			case *ast.IncDecStmt:
				if id, ok := x.X.(*ast.Ident); ok {
					add(id.Name)
				}
			case *ast.IfStmt:
				walk(x.Body.List)
				if b, ok := x.Else.(*ast.BlockStmt); ok {
					walk(b.List)
				}
			case *ast.ForStmt:
				walk(x.Body.List)
			case *ast.BlockStmt:
				walk(x.List)
			}
		}
	}
	walk(stmts)
	return out
}

func kfinTuple(names []string) string {
	if len(names) == 1 {
		return names[0]
	}
	return "(" + strings.Join(names, ", ") + ")"
}

func (c *kfinCtx) tupleType(names []string) string {
	var ts []string
	for _, n := range names {
		ts = append(ts, c.locals[n])
	}
	return strings.Join(ts, " × ")
}

func kfinProj(i, n int) string {
	if n == 1 {
		return "st"
	}
	s := "st"
	for j := 0; j < i; j++ {
		s += ".2"
	}
	if i < n-1 {
		s += ".1"
	}
	return s
}

func (c *kfinCtx) retNone() string {
	if c.depth > 0 {
		return ".ret none"
	}
	return ".ok none"
}

// isErrReturn: `return nil, <non-nil>` (true) / `return v, nil` (false, v)
func (c *kfinCtx) retStmt(r *ast.ReturnStmt, lvl int) (string, error) {
	if c.single {
		if len(r.Results) != 1 {
			return "", c.fail("return with %d results", len(r.Results))
		}
		var pre []kfinBind
		v, err := c.objExpr(r.Results[0], &pre)
		if err != nil {
			return "", err
		}
		ret := ".ok"
		if c.depth > 0 {
			ret = ".ret"
		}
		return c.flush(pre, lvl) + fmt.Sprintf("%s%s %s\n", kfinInd(lvl), ret, v), nil
	}
	if len(r.Results) == 1 {
		if call, ok := r.Results[0].(*ast.CallExpr); ok {
			if tup, ok := c.p.TypesInfo.TypeOf(call).(*types.Tuple); ok && tup.Len() == 2 && kfinIsObject(tup.At(0).Type()) &&
				types.Identical(tup.At(1).Type(), types.Universe.Lookup("error").Type()) {
				field, recv, err := c.callee(call)
				if err != nil {
					return "", err
				}
				var pre []kfinBind
				args, typs, slices, err := c.callArgs(call, &pre)
				if err != nil {
					return "", err
				}
				if recv != "" || len(slices) > 0 {
					return "", c.fail("return of a call with a local object / slice argument")
				}
				if err := c.envField(field, strings.Join(append(typs, "Option S"), " → ")); err != nil {
					return "", err
				}
				app := "env." + field
				if len(args) > 0 {
					app += " " + strings.Join(args, " ")
				}
				ret := ".ok"
				if c.depth > 0 {
					ret = ".ret"
				}
				return c.flush(pre, lvl) + fmt.Sprintf("%s%s (%s)\n", kfinInd(lvl), ret, app), nil
			}
		}
	}
	if len(r.Results) != 2 {
		return "", c.fail("return with %d results", len(r.Results))
	}
	isNil := func(e ast.Expr) bool { id, ok := e.(*ast.Ident); return ok && id.Name == "nil" }
	if isNil(r.Results[0]) && !isNil(r.Results[1]) {
		return kfinInd(lvl) + c.retNone() + "\n", nil
	}
	if id, ok := r.Results[0].(*ast.Ident); ok && isNil(r.Results[1]) && c.locals[id.Name] == "S" {
		if c.depth > 0 {
			return fmt.Sprintf("%s.ret (some %s)\n", kfinInd(lvl), id.Name), nil
		}
		return fmt.Sprintf("%s.ok (some %s)\n", kfinInd(lvl), id.Name), nil
	}
	return "", c.fail("return form")
}

// block: the statements followed by `tail` (the loop's `.next state`; "" at function level, where the list ends in a return)
func (c *kfinCtx) block(stmts []ast.Stmt, lvl int, tail string) (string, error) {
	var sb strings.Builder
	for i, s := range stmts {
		switch x := s.(type) {
		case *ast.ReturnStmt:
			t, err := c.retStmt(x, lvl)
			if err != nil {
				return "", err
			}
			sb.WriteString(t)
			if i != len(stmts)-1 {
				return "", c.fail("statements after return")
			}
			return sb.String(), nil
		case *ast.IfStmt:
			if x.Init != nil || x.Else != nil {
				return "", c.fail("if with init / else")
			}
			var pre []kfinBind
			cond, err := c.expr(x.Cond, &pre)
			if err != nil {
				return "", err
			}
			sb.WriteString(c.flush(pre, lvl))
			if n := len(x.Body.List); n > 0 {
				if r, ok := x.Body.List[n-1].(*ast.ReturnStmt); ok {
					if n != 1 {
						return "", c.fail("if body with statements before return")
					}
					t, err := c.retStmt(r, lvl+1)
					if err != nil {
						return "", err
					}
					fmt.Fprintf(&sb, "%sif %s then\n%s%selse\n", kfinInd(lvl), cond, t, kfinInd(lvl))
					continue
				}
			}
			// a block of rebinding statements
			vars := c.assigned(x.Body.List)
			if len(vars) == 0 {
				return "", c.fail("if body without effect")
			}
			save := c.tmp
			body, err := c.block(x.Body.List, lvl+2, kfinInd(lvl+2)+kfinTuple(vars)+"\n")
			if err != nil {
				return "", err
			}
			if strings.Contains(body, ".ret ") {
				return "", c.fail("return inside a conditional block")
			}
			if strings.Contains(body, "Gzx.GoM.try") || c.tmp != save {
				// checked operations inside the block: the block is a `Res` of the rebound variables, run only when the
				// condition holds (translated again at function level so that its checks are `tryR`)
				c.tmp = save
				d := c.depth
				c.depth = 0
				body, err = c.block(x.Body.List, lvl+2, kfinInd(lvl+2)+".ok "+kfinTuple(vars)+"\n")
				c.depth = d
				if err != nil {
					return "", err
				}
				fmt.Fprintf(&sb, "%s%s ((if %s then\n%s%selse\n%s.ok %s : Gzx.Res (%s))) fun st =>\n", kfinInd(lvl), c.try(), cond, body,
					kfinInd(lvl+1), kfinInd(lvl+2), kfinTuple(vars), c.tupleType(vars))
				for i, n := range vars {
					fmt.Fprintf(&sb, "%slet %s := %s\n", kfinInd(lvl), n, kfinProj(i, len(vars)))
				}
				continue
			}
			fmt.Fprintf(&sb, "%slet %s :=\n%sif %s then\n%s%selse\n%s%s\n", kfinInd(lvl), kfinTuple(vars), kfinInd(lvl+1), cond,
				body, kfinInd(lvl+1), kfinInd(lvl+2), kfinTuple(vars))
		case *ast.AssignStmt:
			t, err := c.assign(x, lvl)
			if err != nil {
				return "", err
			}
			sb.WriteString(t)
		case *ast.ExprStmt:
			call, ok := x.X.(*ast.CallExpr)
			if !ok {
				return "", c.fail("expression statement")
			}
			t, err := c.callStmt(call, nil, lvl)
			if err != nil {
				return "", err
			}
			sb.WriteString(t)
		case *ast.ForStmt:
			t, err := c.forStmt(x, lvl)
			if err != nil {
				return "", err
			}
			sb.WriteString(t)
		case *ast.DeclStmt:
			// `var a, b int`: zero-initialised integer locals
			gd, ok := x.Decl.(*ast.GenDecl)
			if !ok || gd.Tok != token.VAR {
				return "", c.fail("declaration")
			}
			for _, sp := range gd.Specs {
				vs, ok := sp.(*ast.ValueSpec)
				if !ok || len(vs.Values) != 0 || c.kfinType(c.p.TypesInfo.TypeOf(vs.Type)) != "Int" {
					return "", c.fail("var declaration form")
				}
				for _, n := range vs.Names {
					c.locals[n.Name] = "Int"
					fmt.Fprintf(&sb, "%slet %s : Int := 0\n", kfinInd(lvl), n.Name)
				}
			}
		default:
			return "", c.fail("statement form %T", s)
		}
	}
	if tail == "" {
		return "", c.fail("function does not end in a return")
	}
	sb.WriteString(tail)
	return sb.String(), nil
}

// callStmt: an abstract call as a statement; results: the Go-result locals to define (nil: none)
func (c *kfinCtx) callStmt(call *ast.CallExpr, results []*ast.Ident, lvl int) (string, error) {
	field, recv, err := c.callee(call)
	if err != nil {
		return "", err
	}
	var pre []kfinBind
	args, typs, slices, err := c.callArgs(call, &pre)
	if err != nil {
		return "", err
	}
	var sb strings.Builder
	sb.WriteString(c.flush(pre, lvl))
	// result components: Go results (those bound to a name), then the local object, then the rebound slices
	var outNames, outTypes []string
	sig, _ := c.p.TypesInfo.TypeOf(call.Fun).(*types.Signature)
	if sig == nil {
		return "", c.fail("callee without signature")
	}
	if results != nil && sig.Results().Len() != len(results) {
		return "", c.fail("result count")
	}
	for i, r := range results {
		if r.Name == "_" {
			continue
		}
		rt := sig.Results().At(i).Type()
		lt := c.kfinType(rt)
		if kfinIsObject(rt) {
			lt = "S"
			c.usesS = true
		}
		if lt == "" || lt == "List F" {
			return "", c.fail("result type %v of abstract callee %s", rt, field)
		}
		outNames = append(outNames, r.Name)
		outTypes = append(outTypes, lt)
	}
	if recv != "" {
		args = append([]string{recv}, args...)
		typs = append([]string{"S"}, typs...)
		outNames = append(outNames, recv)
		outTypes = append(outTypes, "S")
	}
	for _, s := range slices {
		outNames = append(outNames, s)
		outTypes = append(outTypes, "List F")
	}
	if len(outNames) == 0 {
		return "", c.fail("abstract call %s without effect", field)
	}
	if err := c.envField(field, strings.Join(append(typs, strings.Join(outTypes, " × ")), " → ")); err != nil {
		return "", err
	}
	app := "env." + field
	if len(args) > 0 {
		app += " " + strings.Join(args, " ")
	}
	if len(outNames) == 1 {
		fmt.Fprintf(&sb, "%slet %s := %s\n", kfinInd(lvl), outNames[0], app)
	} else {
		r := c.fresh()
		fmt.Fprintf(&sb, "%slet %s := %s\n", kfinInd(lvl), r, app)
		for i, n := range outNames {
			p := r
			for j := 0; j < i; j++ {
				p += ".2"
			}
			if i < len(outNames)-1 {
				p += ".1"
			}
			fmt.Fprintf(&sb, "%slet %s := %s\n", kfinInd(lvl), n, p)
		}
	}
	for i, n := range outNames {
		c.locals[n] = outTypes[i]
	}
	return sb.String(), nil
}

func (c *kfinCtx) assign(x *ast.AssignStmt, lvl int) (string, error) {
	// calls of abstract callees
	if len(x.Rhs) == 1 {
		if call, ok := x.Rhs[0].(*ast.CallExpr); ok {
			isConv := false
			if tv, ok := c.p.TypesInfo.Types[call.Fun]; ok && tv.IsType() {
				isConv = true
			}
			isBuiltin := false
			if id, ok := call.Fun.(*ast.Ident); ok {
				_, isBuiltin = c.p.TypesInfo.Uses[id].(*types.Builtin)
				if isBuiltin && id.Name == "make" && x.Tok == token.DEFINE && len(x.Lhs) == 1 && len(call.Args) == 2 {
					if lt := c.kfinType(c.p.TypesInfo.TypeOf(call)); lt == "List F" {
						var pre []kfinBind
						n, err := c.expr(call.Args[1], &pre)
						if err != nil {
							return "", err
						}
						name := x.Lhs[0].(*ast.Ident).Name
						c.locals[name] = "List F"
						return c.flush(pre, lvl) + fmt.Sprintf("%s%s (Gzx.GoM.mkA (ops.ofInt 0) %s) fun %s =>\n", kfinInd(lvl), c.try(), n, name), nil
					}
					return "", c.fail("make of a non-float slice")
				}
			}
			sig, _ := c.p.TypesInfo.TypeOf(call.Fun).(*types.Signature)
			stateful := false
			if !isConv && !isBuiltin && sig != nil {
				if len(x.Lhs) > 1 {
					stateful = true
				}
				for i := 0; i < sig.Results().Len(); i++ {
					rt := sig.Results().At(i).Type()
					if kfinIsObject(rt) || types.Identical(rt, types.Universe.Lookup("error").Type()) {
						stateful = true
					}
				}
				for _, a := range call.Args {
					if id, ok := a.(*ast.Ident); ok && c.locals[id.Name] == "List F" {
						stateful = true
					}
				}
			}
			if stateful {
				if x.Tok != token.DEFINE {
					return "", c.fail("abstract call assigned with =")
				}
				var ids []*ast.Ident
				for _, l := range x.Lhs {
					id, ok := l.(*ast.Ident)
					if !ok {
						return "", c.fail("result of an abstract call")
					}
					ids = append(ids, id)
				}
				return c.callStmt(call, ids, lvl)
			}
		}
	}
	if len(x.Lhs) != 1 || len(x.Rhs) != 1 {
		return "", c.fail("parallel assignment")
	}
	var pre []kfinBind
	switch l := x.Lhs[0].(type) {
	case *ast.Ident:
		if x.Tok != token.DEFINE && x.Tok != token.ASSIGN {
			return "", c.fail("assignment operator %s", x.Tok)
		}
		lt := c.kfinType(c.p.TypesInfo.TypeOf(x.Rhs[0]))
		if lt != "Int" && lt != "F" && lt != "Bool" && lt != "List Bool" {
			return "", c.fail("assignment of type %v", c.p.TypesInfo.TypeOf(x.Rhs[0]))
		}
		if lt == "List Bool" {
			if _, ok := x.Rhs[0].(*ast.IndexExpr); !ok || x.Tok != token.DEFINE {
				return "", c.fail("a []bool local must be defined as a row `m[i]`")
			}
		}
		v, err := c.expr(x.Rhs[0], &pre)
		if err != nil {
			return "", err
		}
		if x.Tok == token.ASSIGN {
			if _, ok := c.locals[l.Name]; !ok {
				return "", c.fail("assignment to %s", l.Name)
			}
		}
		c.locals[l.Name] = lt
		return c.flush(pre, lvl) + fmt.Sprintf("%slet %s : %s := %s\n", kfinInd(lvl), l.Name, lt, v), nil
	case *ast.IndexExpr:
		id, ok := l.X.(*ast.Ident)
		if !ok || c.locals[id.Name] != "List F" || x.Tok != token.ASSIGN {
			return "", c.fail("element assignment")
		}
		i, err := c.expr(l.Index, &pre)
		if err != nil {
			return "", err
		}
		v, err := c.expr(x.Rhs[0], &pre)
		if err != nil {
			return "", err
		}
		return c.flush(pre, lvl) + fmt.Sprintf("%s%s (Gzx.GoM.setIdxA %s %s %s) fun %s =>\n", kfinInd(lvl), c.try(), id.Name, i, v, id.Name), nil
	}
	return "", c.fail("assignment form")
}

func (c *kfinCtx) forStmt(x *ast.ForStmt, lvl int) (string, error) {
	init, ok := x.Init.(*ast.AssignStmt)
	if !ok || init.Tok != token.DEFINE || len(init.Lhs) != 1 || len(init.Rhs) != 1 {
		return "", c.fail("loop header")
	}
	v, ok := init.Lhs[0].(*ast.Ident)
	if !ok {
		return "", c.fail("loop header")
	}
	var pre []kfinBind
	a, err := c.expr(init.Rhs[0], &pre)
	if err != nil {
		return "", err
	}
	cond, ok := x.Cond.(*ast.BinaryExpr)
	if !ok || cond.Op != token.LSS {
		return "", c.fail("loop condition")
	}
	if id, ok := cond.X.(*ast.Ident); !ok || id.Name != v.Name {
		return "", c.fail("loop condition")
	}
	b, err := c.expr(cond.Y, &pre)
	if err != nil {
		return "", err
	}
	if len(pre) > 0 {
		return "", c.fail("checked operation in a loop header")
	}
	step := int64(0)
	switch p := x.Post.(type) {
	case *ast.IncDecStmt:
		if id, ok := p.X.(*ast.Ident); ok && id.Name == v.Name && p.Tok == token.INC {
			step = 1
		}
	case *ast.AssignStmt:
		if len(p.Lhs) == 1 && len(p.Rhs) == 1 && p.Tok == token.ADD_ASSIGN {
			if id, ok := p.Lhs[0].(*ast.Ident); ok && id.Name == v.Name {
				if tv := c.p.TypesInfo.Types[p.Rhs[0]]; tv.Value != nil {
					if n, ok := constant.Int64Val(tv.Value); ok && n >= 1 {
						step = n
					}
				}
			}
		}
	}
	if step == 0 {
		return "", c.fail("loop post statement")
	}
	// the bound and the loop variable must not be assigned in the body
	state := c.assigned(x.Body.List)
	for _, n := range state {
		if n == v.Name {
			return "", c.fail("loop variable assigned in the body")
		}
		if id, ok := cond.Y.(*ast.Ident); ok && id.Name == n {
			return "", c.fail("loop bound assigned in the body")
		}
	}
	if len(state) == 0 {
		return "", c.fail("loop without effect")
	}
	saved := map[string]string{}
	for k, t := range c.locals {
		saved[k] = t
	}
	c.locals[v.Name] = "Int"
	sty := c.tupleType(state)
	var sb strings.Builder
	fmt.Fprintf(&sb, "%s(Gzx.GoM.loop (fun (%s : Int) (st : %s) => ((\n", kfinInd(lvl), v.Name, sty)
	for i, n := range state {
		fmt.Fprintf(&sb, "%slet %s := %s\n", kfinInd(lvl+2), n, kfinProj(i, len(state)))
	}
	c.depth++
	body, err := c.block(x.Body.List, lvl+2, fmt.Sprintf("%s.next %s\n", kfinInd(lvl+2), kfinTuple(state)))
	c.depth--
	if err != nil {
		return "", err
	}
	sb.WriteString(body)
	c.locals = saved
	then := "thenR"
	if c.depth > 0 {
		then = "thenC"
	}
	rty := "Option S"
	if c.single {
		rty = "S"
	}
	fmt.Fprintf(&sb, "%s) : Gzx.GoM.Ctl (%s) (%s))) %d (Gzx.GoM.tripUp %s %s %d) %s %s).%s fun st =>\n", kfinInd(lvl+2), sty, rty, step, a, b, step, a,
		kfinTuple(state), then)
	for i, n := range state {
		fmt.Fprintf(&sb, "%slet %s := %s\n", kfinInd(lvl), n, kfinProj(i, len(state)))
	}
	return sb.String(), nil
}

func kfinishGenFuncE(p *packages.Package, e entry) (string, error) {
	if !kfinishOn() {
		return "", fmt.Errorf("kind funce is only enabled for modules K19b*")
	}
	fd := findFunc(p, e.name)
	if fd == nil || fd.Body == nil {
		return "", fmt.Errorf("function not found")
	}
	k19NeedNum(e.module)
	c := &kfinCtx{p: p, lean: e.lean, envTypes: map[string]string{}, locals: map[string]string{}, objs: map[string]bool{}}
	var params []string
	if fd.Recv != nil {
		for _, f := range fd.Recv.List {
			for _, n := range f.Names {
				c.objs[n.Name] = true
			}
		}
	}
	for _, f := range fd.Type.Params.List {
		t := p.TypesInfo.TypeOf(f.Type)
		for _, n := range f.Names {
			if kfinIsObject(t) {
				c.objs[n.Name] = true
				continue
			}
			lt := c.kfinType(t)
			if lt != "Int" && lt != "F" && lt != "List Bool" && lt != "List (List Bool)" {
				return "", fmt.Errorf("parameter %s of type %v", n.Name, t)
			}
			c.locals[n.Name] = lt
			params = append(params, fmt.Sprintf("(%s : %s)", n.Name, lt))
		}
	}
	res := fd.Type.Results
	if res != nil && len(res.List) == 1 && len(res.List[0].Names) <= 1 && kfinIsObject(p.TypesInfo.TypeOf(res.List[0].Type)) {
		c.single = true
	} else if res == nil || len(res.List) != 2 || !kfinIsObject(p.TypesInfo.TypeOf(res.List[0].Type)) ||
		!types.Identical(p.TypesInfo.TypeOf(res.List[1].Type), types.Universe.Lookup("error").Type()) {
		return "", fmt.Errorf("results are not (object, error) / one object")
	}
	body, err := c.block(fd.Body.List, 1, "")
	if err != nil {
		return "", err
	}
	var sb strings.Builder
	fmt.Fprintf(&sb, "/-- the abstract callees of %s.%s (objects that are parameters are closed over) -/\n", e.pkg, e.name)
	fmt.Fprintf(&sb, "structure %s_Env (F S : Type) where\n", e.lean)
	for _, n := range c.envNames {
		fmt.Fprintf(&sb, "  %s : %s\n", n, c.envTypes[n])
	}
	fmt.Fprintf(&sb, "\n/-- translated from %s.%s (abstract callees: %s) -/\n", e.pkg, e.name, strings.Join(c.envNames, ", "))
	rty := "Option S"
	if c.single {
		rty = "S"
	}
	fmt.Fprintf(&sb, "def %s {F S : Type} (ops : Gzx.GoM.NumOps F) (env : %s_Env F S) %s : Gzx.Res (%s) :=\n", e.lean, e.lean,
		strings.Join(params, " "), rty)
	sb.WriteString(body)
	return sb.String(), nil
}
