// gzxtr: regenerates /verif/lean/Gzx/Gen/*.lean from the CURRENT working tree of /repo.
//
// Two kinds of output, both driven by tables.txt:
//
//	table  <LeanModule> <leanName> <import/path> <GoVarOrFunc>
//	    the initialiser expression of a package-level variable (or the single returned
//	    expression of a niladic function) is evaluated symbolically into a `GoVal` tree:
//	    ints/strings/bools are constants (go/types constant evaluation), slices/arrays become
//	    `.list`, struct literals and calls become `.app "<name>" [args]`, `&x` is `x`,
//	    references to other package-level variables are inlined.
//	func   <LeanModule> <leanName> <import/path> <GoFunc>
//	    a small pure integer/boolean function is translated statement by statement into a Lean
//	    `Int`/`Bool` definition (subset: params of integer/bool type; if/else, switch on a value,
//	    return, :=/= of locals (SSA-style let), arithmetic / comparison / logic / bit ops).
//	    If the function leaves the subset, nothing is emitted for it and the manifest records
//	    `untranslatable` (the checks then fall back to correspondence only).
//	funcm / region: see monadic.go (loops, slice reads, checked operations; target `Res`).
//
// Every function kind also emits `def has_<leanName> : Bool` (true iff a definition was emitted).
//
// Files are written only when their content changes.
package main

import (
	"bufio"
	"encoding/json"
	"flag"
	"fmt"
	"go/ast"
	"go/constant"
	"go/token"
	"go/types"
	"os"
	"path/filepath"
	"sort"
	"strings"

	"golang.org/x/tools/go/packages"
)

const modPath = "github.com/makiuchi-d/gozxing"

type entry struct {
	kind, module, lean, pkg, name string
}

type genItem struct {
	Kind   string `json:"kind"`
	Module string `json:"module"`
	Lean   string `json:"lean"`
	Go     string `json:"go"`
	Status string `json:"status"` // ok | untranslatable: <why> | missing
	Nodes  int    `json:"nodes"`
}

var (
	pkgs  map[string]*packages.Package
	nodes int
)

func main() {
	repo := flag.String("repo", "/repo", "repository root")
	out := flag.String("out", "/verif/lean/Gzx/Gen", "output directory")
	cfg := flag.String("tables", "/verif/translator/tables.d", "table list file or directory of *.txt")
	flag.Parse()

	entries := readCfg(*cfg)
	conf := &packages.Config{
		Mode: packages.NeedName | packages.NeedFiles | packages.NeedSyntax | packages.NeedTypes |
			packages.NeedTypesInfo | packages.NeedImports | packages.NeedDeps,
		Dir: *repo,
		Env: append(os.Environ(), "GOFLAGS=-mod=mod", "GOPROXY=off", "GOSUMDB=off", "GOTOOLCHAIN=local"),
	}
	loaded, err := packages.Load(conf, "./...")
	if err != nil {
		fatal("load: %v", err)
	}
	pkgs = map[string]*packages.Package{}
	for _, p := range loaded {
		pkgs[p.PkgPath] = p
		if len(p.Errors) > 0 {
			fatal("package %s has errors: %v", p.PkgPath, p.Errors[0])
		}
	}

	byModule := map[string][]string{}
	var order []string
	var items []genItem
	monadic := map[string]bool{}
	for _, e := range entries {
		if _, ok := byModule[e.module]; !ok {
			order = append(order, e.module)
			byModule[e.module] = nil
		}
		full := modPath
		if e.pkg != "." {
			full += "/" + e.pkg
		}
		p := pkgs[full]
		it := genItem{Kind: e.kind, Module: e.module, Lean: e.lean, Go: e.pkg + "." + e.name}
		if p == nil {
			it.Status = "missing"
			items = append(items, it)
			continue
		}
		nodes = 0
		curModule = e.module
		var text string
		var err error
		func() {
			// a panic inside one translation (an AST shape nobody thought of) makes THAT item untranslatable, not the run
			defer func() {
				if r := recover(); r != nil {
					text, err = "", fmt.Errorf("internal error of the translator: %v", r)
					curFC = nil
				}
			}()
			switch e.kind {
			case "table":
				text, err = genTable(p, e)
			case "func":
				text, err = genFunc(p, e)
			case "funclits":
				text, err = genFuncLits(p, e)
			case "funcm":
				text, err = genFuncM(p, e)
				monadic[e.module] = true
			case "region":
				text, err = genRegion(p, e)
				monadic[e.module] = true
			case "funcn": // ext_k19.go: funcm over an abstract number type (float64 -> `F`, `ops : NumOps F`)
				text, err = genFuncN(p, e)
				monadic[e.module] = true
			case "funcq": // wp k01dec (ext_k01dec.go): funcm with the object types of the QR decoder
				text, err = k01decGenFunc(p, e)
				monadic[e.module] = true
			case "ambient", "funcv": // ext_c04tie.go (value-passing target)
				text, err = genExtC04(p, e)
				monadic[e.module] = true
			case "funce": // wp kfinish (ext_kfinish.go): counted-loop function whose calls are fields of an environment structure
				text, err = kfinishGenFuncE(p, e)
				monadic[e.module] = true
			case "regionq": // wp k01dec2 (ext_k01dec2.go): region with the abstract matrix operations threaded through
				text, err = k01dec2GenRegion(p, e)
				monadic[e.module] = true
			default:
				err = fmt.Errorf("unknown kind %s", e.kind)
			}
		}()
		if err != nil {
			it.Status = "untranslatable: " + err.Error()
			text = fmt.Sprintf("-- %s.%s: %s\n", e.pkg, e.name, it.Status)
		} else {
			it.Status = "ok"
		}
		it.Nodes = nodes
		items = append(items, it)
		if e.kind != "table" && e.kind != "ambient" {
			// `has_<name>`: lets obligation files / evidence see whether the kernel was translated
			text += fmt.Sprintf("\ndef has_%s : Bool := %v\n", e.lean, err == nil)
		}
		byModule[e.module] = append(byModule[e.module], text)
	}
	os.MkdirAll(*out, 0o755)
	keep := map[string]bool{}
	for _, m := range order {
		var sb strings.Builder
		sb.WriteString("-- GENERATED by /verif/translator from /repo's working tree. Do not edit.\n")
		sb.WriteString("import Gzx.GoVal\n")
		if monadic[m] {
			sb.WriteString("import Gzx.GoM\n")
		}
		for _, imp := range extraImports[m] { // monadic.go: run-time library of the round-4 subset
			sb.WriteString("import " + imp + "\n")
		}
		sb.WriteString("set_option maxRecDepth 100000\nset_option linter.unusedVariables false\nnamespace Gzx.Gen." + m + "\nopen Gzx.GoVal\n\n")
		for _, t := range byModule[m] {
			sb.WriteString(t)
			sb.WriteString("\n")
		}
		sb.WriteString("end Gzx.Gen." + m + "\n")
		path := filepath.Join(*out, m+".lean")
		keep[m+".lean"] = true
		writeIfChanged(path, sb.String())
	}
	// remove stale generated files
	if des, err := os.ReadDir(*out); err == nil {
		for _, de := range des {
			if strings.HasSuffix(de.Name(), ".lean") && !keep[de.Name()] {
				os.Remove(filepath.Join(*out, de.Name()))
			}
		}
	}
	b, _ := json.MarshalIndent(items, "", " ")
	writeIfChanged(filepath.Join(*out, "gen-manifest.json"), string(b)+"\n")
	bad := 0
	for _, it := range items {
		if it.Status != "ok" {
			fmt.Printf("translator: %s %s: %s\n", it.Kind, it.Go, it.Status)
			bad++
		}
	}
	fmt.Printf("translator: %d items, %d not ok\n", len(items), bad)
}

func fatal(f string, a ...interface{}) {
	fmt.Fprintf(os.Stderr, "gzxtr: "+f+"\n", a...)
	os.Exit(2)
}

func writeIfChanged(path, content string) {
	if old, err := os.ReadFile(path); err == nil && string(old) == content {
		return
	}
	if err := os.WriteFile(path, []byte(content), 0o644); err != nil {
		fatal("write %s: %v", path, err)
	}
}

func readCfg(path string) []entry {
	if st, err := os.Stat(path); err == nil && st.IsDir() {
		des, _ := os.ReadDir(path)
		var es []entry
		for _, de := range des {
			if strings.HasSuffix(de.Name(), ".txt") {
				es = append(es, readCfg(filepath.Join(path, de.Name()))...)
			}
		}
		return es
	}
	f, err := os.Open(path)
	if err != nil {
		fatal("%v", err)
	}
	defer f.Close()
	var es []entry
	sc := bufio.NewScanner(f)
	for sc.Scan() {
		l := strings.TrimSpace(sc.Text())
		if l == "" || strings.HasPrefix(l, "#") {
			continue
		}
		fs := strings.Fields(l)
		if len(fs) != 5 {
			fatal("bad config line: %s", l)
		}
		es = append(es, entry{fs[0], fs[1], fs[2], fs[3], fs[4]})
	}
	return es
}

// ---------- tables ----------

type evalCtx struct {
	depth int
	stack map[types.Object]bool
}

func findVarInit(p *packages.Package, name string) (ast.Expr, *packages.Package) {
	for _, f := range p.Syntax {
		for _, d := range f.Decls {
			gd, ok := d.(*ast.GenDecl)
			if !ok || (gd.Tok != token.VAR && gd.Tok != token.CONST) {
				continue
			}
			for _, s := range gd.Specs {
				vs := s.(*ast.ValueSpec)
				for i, n := range vs.Names {
					if n.Name == name && i < len(vs.Values) {
						return vs.Values[i], p
					}
				}
			}
		}
	}
	return nil, nil
}

func findFunc(p *packages.Package, name string) *ast.FuncDecl {
	if i := strings.Index(name, "."); i > 0 { // "Recv.Method" (added for C08; plain names behave as before)
		recv, meth := name[:i], name[i+1:]
		for _, f := range p.Syntax {
			for _, d := range f.Decls {
				fd, ok := d.(*ast.FuncDecl)
				if !ok || fd.Recv == nil || len(fd.Recv.List) != 1 || fd.Name.Name != meth {
					continue
				}
				t := fd.Recv.List[0].Type
				if st, ok := t.(*ast.StarExpr); ok {
					t = st.X
				}
				if id, ok := t.(*ast.Ident); ok && id.Name == recv {
					return fd
				}
			}
		}
		return nil
	}
	for _, f := range p.Syntax {
		for _, d := range f.Decls {
			if fd, ok := d.(*ast.FuncDecl); ok && fd.Recv == nil && fd.Name.Name == name {
				return fd
			}
		}
	}
	return nil
}

func genTable(p *packages.Package, e entry) (string, error) {
	ex, _ := findVarInit(p, e.name)
	if ex == nil {
		// niladic function with a single return
		fd := findFunc(p, e.name)
		if fd != nil && fd.Body != nil && len(fd.Body.List) > 1 {
			return genCtorTable(p, e, fd)
		}
		if fd == nil || fd.Body == nil || len(fd.Body.List) != 1 {
			return "", fmt.Errorf("no initialiser found")
		}
		rs, ok := fd.Body.List[0].(*ast.ReturnStmt)
		if !ok || len(rs.Results) != 1 {
			return "", fmt.Errorf("function body is not a single return")
		}
		ex = rs.Results[0]
	}
	ec := &evalCtx{stack: map[types.Object]bool{}}
	v, err := ec.eval(p, ex)
	if err != nil {
		return "", err
	}
	return fmt.Sprintf("/-- %s.%s -/\ndef %s : GoVal :=\n  %s\n", e.pkg, e.name, e.lean, v), nil
}

// genCtorTable handles a niladic constructor-style function (added for C08):
//
//	x := <expr>; x.f1 = <expr>; ...; return x
//
// and emits (.app "update" [<expr>, (.list [(.list [(.str "f1"), <expr>]), ...])]).
func genCtorTable(p *packages.Package, e entry, fd *ast.FuncDecl) (string, error) {
	stmts := fd.Body.List
	first, ok := stmts[0].(*ast.AssignStmt)
	if !ok || first.Tok != token.DEFINE || len(first.Lhs) != 1 || len(first.Rhs) != 1 {
		return "", fmt.Errorf("function body is not a single return")
	}
	xid, ok := first.Lhs[0].(*ast.Ident)
	if !ok {
		return "", fmt.Errorf("function body is not a single return")
	}
	last, ok := stmts[len(stmts)-1].(*ast.ReturnStmt)
	if !ok || len(last.Results) != 1 {
		return "", fmt.Errorf("function body is not a single return")
	}
	if rid, ok := last.Results[0].(*ast.Ident); !ok || rid.Name != xid.Name {
		return "", fmt.Errorf("function body is not a single return")
	}
	ec := &evalCtx{stack: map[types.Object]bool{}}
	base, err := ec.eval(p, first.Rhs[0])
	if err != nil {
		return "", err
	}
	var ups []string
	for _, st := range stmts[1 : len(stmts)-1] {
		as, ok := st.(*ast.AssignStmt)
		if !ok || as.Tok != token.ASSIGN || len(as.Lhs) != 1 || len(as.Rhs) != 1 {
			return "", fmt.Errorf("unsupported statement in constructor at %s", p.Fset.Position(st.Pos()))
		}
		sel, ok := as.Lhs[0].(*ast.SelectorExpr)
		if !ok {
			return "", fmt.Errorf("unsupported assignment target in constructor")
		}
		if id, ok := sel.X.(*ast.Ident); !ok || id.Name != xid.Name {
			return "", fmt.Errorf("unsupported assignment target in constructor")
		}
		v, err := ec.eval(p, as.Rhs[0])
		if err != nil {
			return "", err
		}
		ups = append(ups, "(.list [(.str "+leanStr(sel.Sel.Name)+"), "+v+"])")
	}
	v := "(.app \"update\" [" + base + ", (.list [" + strings.Join(ups, ", ") + "])])"
	return fmt.Sprintf("/-- %s.%s -/\ndef %s : GoVal :=\n  %s\n", e.pkg, e.name, e.lean, v), nil
}

func leanStr(s string) string {
	var sb strings.Builder
	sb.WriteByte('"')
	for _, r := range s {
		switch {
		case r == '"':
			sb.WriteString("\\\"")
		case r == '\\':
			sb.WriteString("\\\\")
		case r == '\n':
			sb.WriteString("\\n")
		case r == '\r':
			sb.WriteString("\\r")
		case r == '\t':
			sb.WriteString("\\t")
		case r < 32 || r == 127:
			fmt.Fprintf(&sb, "\\x%02x", r)
		default:
			sb.WriteRune(r)
		}
	}
	sb.WriteByte('"')
	return sb.String()
}

func constVal(v constant.Value) (string, bool) {
	switch v.Kind() {
	case constant.Int:
		s := v.ExactString()
		if strings.HasPrefix(s, "-") {
			return "(.int (" + s + "))", true
		}
		return "(.int " + s + ")", true
	case constant.Bool:
		if constant.BoolVal(v) {
			return "(.bool true)", true
		}
		return "(.bool false)", true
	case constant.String:
		return "(.str " + leanStr(constant.StringVal(v)) + ")", true
	case constant.Float:
		// floats are emitted as exact rationals num/den
		r := constant.ToFloat(v)
		num := constant.Num(r)
		den := constant.Denom(r)
		if num.Kind() == constant.Int && den.Kind() == constant.Int {
			return fmt.Sprintf("(.app \"rat\" [(.int (%s)), (.int %s)])", num.ExactString(), den.ExactString()), true
		}
	}
	return "", false
}

func typeName(t types.Type) string {
	switch tt := t.(type) {
	case *types.Pointer:
		return typeName(tt.Elem())
	case *types.Named:
		return tt.Obj().Name()
	}
	return t.String()
}

func (ec *evalCtx) eval(p *packages.Package, ex ast.Expr) (string, error) {
	nodes++
	if nodes > 2_000_000 {
		return "", fmt.Errorf("table too large")
	}
	if tv, ok := p.TypesInfo.Types[ex]; ok && tv.Value != nil {
		if s, ok := constVal(tv.Value); ok {
			return s, nil
		}
	}
	switch x := ex.(type) {
	case *ast.ParenExpr:
		return ec.eval(p, x.X)
	case *ast.UnaryExpr:
		if x.Op == token.AND {
			return ec.eval(p, x.X)
		}
		return "", fmt.Errorf("non-constant unary %s at %s", x.Op, p.Fset.Position(x.Pos()))
	case *ast.CompositeLit:
		t := p.TypesInfo.TypeOf(x)
		if t == nil {
			return "", fmt.Errorf("untyped composite literal")
		}
		under := t.Underlying()
		if pt, ok := under.(*types.Pointer); ok {
			under = pt.Elem().Underlying()
		}
		switch u := under.(type) {
		case *types.Slice, *types.Array:
			var parts []string
			idx := 0
			sparse := map[int]string{}
			maxIdx := -1
			for _, el := range x.Elts {
				if kv, ok := el.(*ast.KeyValueExpr); ok {
					ktv := p.TypesInfo.Types[kv.Key]
					if ktv.Value == nil {
						return "", fmt.Errorf("non-constant index key")
					}
					k, _ := constant.Int64Val(ktv.Value)
					idx = int(k)
					el = kv.Value
				}
				s, err := ec.eval(p, el)
				if err != nil {
					return "", err
				}
				sparse[idx] = s
				if idx > maxIdx {
					maxIdx = idx
				}
				idx++
			}
			if arr, ok := u.(*types.Array); ok && int(arr.Len())-1 > maxIdx {
				maxIdx = int(arr.Len()) - 1
			}
			for i := 0; i <= maxIdx; i++ {
				if s, ok := sparse[i]; ok {
					parts = append(parts, s)
				} else {
					parts = append(parts, "(.app \"zero\" [])")
				}
			}
			return "(.list [" + strings.Join(parts, ", ") + "])", nil
		case *types.Struct:
			fields := make([]string, u.NumFields())
			for i := range fields {
				fields[i] = "(.app \"zero\" [])"
			}
			for i, el := range x.Elts {
				if kv, ok := el.(*ast.KeyValueExpr); ok {
					kn := kv.Key.(*ast.Ident).Name
					found := false
					for j := 0; j < u.NumFields(); j++ {
						if u.Field(j).Name() == kn {
							s, err := ec.eval(p, kv.Value)
							if err != nil {
								return "", err
							}
							fields[j] = s
							found = true
						}
					}
					if !found {
						return "", fmt.Errorf("unknown field %s", kn)
					}
				} else {
					s, err := ec.eval(p, el)
					if err != nil {
						return "", err
					}
					fields[i] = s
				}
			}
			return fmt.Sprintf("(.app %s [%s])", leanStr(typeName(t)), strings.Join(fields, ", ")), nil
		case *types.Map:
			var parts []string
			for _, el := range x.Elts {
				kv := el.(*ast.KeyValueExpr)
				k, err := ec.eval(p, kv.Key)
				if err != nil {
					return "", err
				}
				v, err := ec.eval(p, kv.Value)
				if err != nil {
					return "", err
				}
				parts = append(parts, "(.list ["+k+", "+v+"])")
			}
			return "(.app \"map\" [" + strings.Join(parts, ", ") + "])", nil
		}
		return "", fmt.Errorf("unsupported composite type %s", t)
	case *ast.CallExpr:
		// conversion?
		if tv, ok := p.TypesInfo.Types[x.Fun]; ok && tv.IsType() && len(x.Args) == 1 {
			return ec.eval(p, x.Args[0])
		}
		name := ""
		switch f := x.Fun.(type) {
		case *ast.Ident:
			name = f.Name
		case *ast.SelectorExpr:
			name = f.Sel.Name
			if id, ok := f.X.(*ast.Ident); ok {
				name = id.Name + "." + name
			}
		default:
			return "", fmt.Errorf("unsupported call at %s", p.Fset.Position(x.Pos()))
		}
		var parts []string
		for _, a := range x.Args {
			s, err := ec.eval(p, a)
			if err != nil {
				return "", err
			}
			parts = append(parts, s)
		}
		return fmt.Sprintf("(.app %s [%s])", leanStr(name), strings.Join(parts, ", ")), nil
	case *ast.FuncLit:
		return "(.app \"func\" [])", nil
	case *ast.Ident:
		if x.Name == "nil" {
			return "(.app \"nil\" [])", nil
		}
		obj := p.TypesInfo.Uses[x]
		return ec.evalObj(p, obj, x.Name)
	case *ast.SelectorExpr:
		obj := p.TypesInfo.Uses[x.Sel]
		return ec.evalObj(p, obj, x.Sel.Name)
	}
	return "", fmt.Errorf("unsupported expression %T at %s", ex, p.Fset.Position(ex.Pos()))
}

func (ec *evalCtx) evalObj(p *packages.Package, obj types.Object, name string) (string, error) {
	switch o := obj.(type) {
	case *types.Var:
		if o.Pkg() == nil || o.Parent() != o.Pkg().Scope() {
			return "", fmt.Errorf("reference to non-package variable %s", name)
		}
		op := pkgs[o.Pkg().Path()]
		if op == nil {
			return fmt.Sprintf("(.app \"extern\" [(.str %s)])", leanStr(o.Pkg().Path()+"."+name)), nil
		}
		if ec.stack[o] {
			return "", fmt.Errorf("cyclic reference through %s", name)
		}
		ec.stack[o] = true
		defer delete(ec.stack, o)
		init, ip := findVarInit(op, o.Name())
		if init == nil {
			return fmt.Sprintf("(.app \"uninit\" [(.str %s)])", leanStr(name)), nil
		}
		return ec.eval(ip, init)
	case *types.Func:
		return fmt.Sprintf("(.app \"funcref\" [(.str %s)])", leanStr(name)), nil
	case *types.Const:
		if s, ok := constVal(o.Val()); ok {
			return s, nil
		}
	}
	return "", fmt.Errorf("unsupported identifier %s", name)
}

// ---------- small pure functions ----------

type fnCtx struct {
	p      *packages.Package
	locals map[string]int // SSA version per Go local
	why    string
	// parameters of (pointer to) struct type: only their integer/bool fields may be read (`x.f`);
	// every field read becomes a Lean parameter `x_f` (in field declaration order)
	structs    map[string]*types.Struct
	fieldsUsed map[string]string // "x_f" -> Lean type
	// monadic target (kinds funcm / region, see monadic.go); nil for the plain `func` kinds
	m          *mstate
	paramNames []string
}

func genFunc(p *packages.Package, e entry) (string, error) {
	fd := findFunc(p, e.name)
	if fd == nil || fd.Body == nil {
		return "", fmt.Errorf("function not found")
	}
	ft := fd.Type
	if fd.Recv != nil { // method: the receiver is the first parameter
		params := &ast.FieldList{List: append(append([]*ast.Field{}, fd.Recv.List...), fd.Type.Params.List...)}
		ft = &ast.FuncType{Params: params, Results: fd.Type.Results}
	}
	return genFuncBody(p, e.lean, e.pkg+"."+e.name, ft, fd.Body)
}

// structOf returns the struct type behind a (pointer to a) named struct parameter type.
func structOf(t types.Type) *types.Struct {
	if pt, ok := t.Underlying().(*types.Pointer); ok {
		t = pt.Elem()
	}
	st, _ := t.Underlying().(*types.Struct)
	return extFlatten(st) // ext_k17k20.go: embedded structs are spliced in (identity for a struct without them)
}

func genFuncBody(p *packages.Package, lean, goName string, ftype *ast.FuncType, fbody *ast.BlockStmt) (string, error) {
	fd := struct {
		Type *ast.FuncType
		Body *ast.BlockStmt
	}{ftype, fbody}
	fc := &fnCtx{p: p, locals: map[string]int{}, structs: map[string]*types.Struct{}, fieldsUsed: map[string]string{}}
	var params []string
	type sparam struct {
		name string
		st   *types.Struct
		at   int // position in params where its field parameters are spliced in
	}
	var sparams []sparam
	for _, fl := range fd.Type.Params.List {
		t := p.TypesInfo.TypeOf(fl.Type)
		lt, err := leanType(t)
		if err != nil {
			if st := structOf(t); st != nil {
				for _, n := range fl.Names {
					fc.structs[n.Name] = st
					sparams = append(sparams, sparam{n.Name, st, len(params)})
				}
				continue
			}
			return "", err
		}
		for _, n := range fl.Names {
			params = append(params, fmt.Sprintf("(%s : %s)", n.Name, lt))
			fc.locals[n.Name] = 0
		}
	}
	if fd.Type.Results == nil || len(fd.Type.Results.List) == 0 {
		return "", fmt.Errorf("no result")
	}
	var rts []string
	for _, fl := range fd.Type.Results.List {
		t := p.TypesInfo.TypeOf(fl.Type)
		lt, err := leanType(t)
		if err != nil {
			// error results are modelled as Bool "failed"
			if t.String() == "error" || isErrorType(t) { // named error interfaces (gozxing.WriterException ...) too
				lt = "Bool"
			} else {
				return "", err
			}
		}
		n := len(fl.Names)
		if n == 0 {
			n = 1
		}
		for i := 0; i < n; i++ {
			rts = append(rts, lt)
		}
	}
	body, err := fc.block(fd.Body.List, 1)
	if err != nil {
		return "", err
	}
	// splice the struct fields that were read in as parameters (back to front keeps positions valid)
	for i := len(sparams) - 1; i >= 0; i-- {
		sp := sparams[i]
		var fps []string
		for j := 0; j < sp.st.NumFields(); j++ {
			key := sp.name + "_" + sp.st.Field(j).Name()
			if lt, ok := fc.fieldsUsed[key]; ok {
				fps = append(fps, fmt.Sprintf("(%s : %s)", key, lt))
			}
		}
		params = append(params[:sp.at], append(fps, params[sp.at:]...)...)
	}
	rt := strings.Join(rts, " × ")
	return fmt.Sprintf("/-- translated from %s -/\ndef %s %s : %s :=\n%s\n", goName, lean, strings.Join(params, " "), rt, body), nil
}

// genFuncLits translates every function literal inside the initialiser of a package-level
// variable, in source order, as <lean>_0, <lean>_1, ...
func genFuncLits(p *packages.Package, e entry) (string, error) {
	ex, ip := findVarInit(p, e.name)
	if ex == nil {
		return "", fmt.Errorf("no initialiser found")
	}
	var lits []*ast.FuncLit
	ast.Inspect(ex, func(n ast.Node) bool {
		if fl, ok := n.(*ast.FuncLit); ok {
			lits = append(lits, fl)
			return false
		}
		return true
	})
	if len(lits) == 0 {
		return "", fmt.Errorf("no function literals")
	}
	var sb strings.Builder
	for i, fl := range lits {
		t, err := genFuncBody(ip, fmt.Sprintf("%s_%d", e.lean, i), e.pkg+"."+e.name, fl.Type, fl.Body)
		if err != nil {
			return "", fmt.Errorf("literal %d: %v", i, err)
		}
		sb.WriteString(t)
		sb.WriteString("\n")
	}
	fmt.Fprintf(&sb, "def %s_count : Nat := %d\n", e.lean, len(lits))
	return sb.String(), nil
}

func leanType(t types.Type) (string, error) {
	if b, ok := t.Underlying().(*types.Basic); ok {
		switch {
		case b.Info()&types.IsInteger != 0:
			return "Int", nil
		case b.Info()&types.IsBoolean != 0:
			return "Bool", nil
		}
	}
	return "", fmt.Errorf("unsupported type %s", t)
}

func isErrorType(t types.Type) bool {
	et := types.Universe.Lookup("error").Type()
	return types.AssignableTo(t, et) && !types.Identical(t, types.Typ[types.UntypedNil])
}

func ind(n int) string { return strings.Repeat("  ", n) }

func (fc *fnCtx) name(n string) string {
	v := fc.locals[n]
	if v == 0 {
		if fc.m != nil {
			return leanIdent(n) // monadic.go: Go identifiers that are Lean keywords (`end`, `from`) are escaped
		}
		return n
	}
	return fmt.Sprintf("%s_%d", n, v)
}

// block translates a statement list that must end in a return on every path.
func (fc *fnCtx) block(stmts []ast.Stmt, lvl int) (string, error) {
	if len(stmts) == 0 {
		return "", fmt.Errorf("path without return")
	}
	s := stmts[0]
	rest := stmts[1:]
	switch x := s.(type) {
	case *ast.ReturnStmt:
		var rs []string
		for _, r := range x.Results {
			if t := fc.p.TypesInfo.TypeOf(r); t != nil && (t.String() == "error" || isErrorType(t)) {
				if id, ok := r.(*ast.Ident); ok && id.Name == "nil" {
					rs = append(rs, "false")
				} else {
					rs = append(rs, "true")
				}
				continue
			}
			if id, ok := r.(*ast.Ident); ok && id.Name == "nil" {
				rs = append(rs, "false")
				continue
			}
			e, err := fc.expr(r)
			if err != nil {
				return "", err
			}
			rs = append(rs, e)
		}
		if len(rs) == 1 {
			return ind(lvl) + rs[0], nil
		}
		return ind(lvl) + "(" + strings.Join(rs, ", ") + ")", nil
	case *ast.AssignStmt:
		if len(x.Lhs) != len(x.Rhs) {
			return "", fmt.Errorf("multi-value assignment")
		}
		var lets []string
		// evaluate all RHS first
		var rhs []string
		for _, r := range x.Rhs {
			e, err := fc.expr(r)
			if err != nil {
				return "", err
			}
			rhs = append(rhs, e)
		}
		for i, l := range x.Lhs {
			id, ok := l.(*ast.Ident)
			if !ok {
				return "", fmt.Errorf("assignment to non-local")
			}
			val := rhs[i]
			if x.Tok != token.DEFINE && x.Tok != token.ASSIGN {
				op := strings.TrimSuffix(x.Tok.String(), "=")
				cur := fc.name(id.Name)
				b, err := binop(op, cur, val)
				if err != nil {
					return "", err
				}
				val = b
			}
			if _, seen := fc.locals[id.Name]; seen {
				fc.locals[id.Name]++
			} else {
				fc.locals[id.Name] = 0
			}
			lets = append(lets, fmt.Sprintf("%slet %s := %s", ind(lvl), fc.name(id.Name), val))
		}
		r, err := fc.block(rest, lvl)
		if err != nil {
			return "", err
		}
		return strings.Join(lets, "\n") + "\n" + r, nil
	case *ast.DeclStmt:
		gd, ok := x.Decl.(*ast.GenDecl)
		if !ok || gd.Tok != token.VAR {
			return "", fmt.Errorf("unsupported declaration")
		}
		var lets []string
		for _, sp := range gd.Specs {
			vs := sp.(*ast.ValueSpec)
			for i, n := range vs.Names {
				val := "0"
				if i < len(vs.Values) {
					e, err := fc.expr(vs.Values[i])
					if err != nil {
						return "", err
					}
					val = e
				} else if t := fc.p.TypesInfo.TypeOf(vs.Type); t != nil {
					if lt, _ := leanType(t); lt == "Bool" {
						val = "false"
					}
				}
				if _, seen := fc.locals[n.Name]; seen {
					fc.locals[n.Name]++
				} else {
					fc.locals[n.Name] = 0
				}
				lets = append(lets, fmt.Sprintf("%slet %s := %s", ind(lvl), fc.name(n.Name), val))
			}
		}
		r, err := fc.block(rest, lvl)
		if err != nil {
			return "", err
		}
		return strings.Join(lets, "\n") + "\n" + r, nil
	case *ast.IfStmt:
		if x.Init != nil {
			return "", fmt.Errorf("if with init")
		}
		cond, err := fc.expr(x.Cond)
		if err != nil {
			return "", err
		}
		saved := copyMap(fc.locals)
		// then-branch: if it does not end in return, continue with rest
		thenStmts := append(append([]ast.Stmt{}, x.Body.List...), terminatorFill(x.Body.List, rest)...)
		th, err := fc.block(thenStmts, lvl+1)
		if err != nil {
			return "", err
		}
		fc.locals = copyMap(saved)
		var elStmts []ast.Stmt
		switch el := x.Else.(type) {
		case nil:
			elStmts = rest
		case *ast.BlockStmt:
			elStmts = append(append([]ast.Stmt{}, el.List...), terminatorFill(el.List, rest)...)
		case *ast.IfStmt:
			elStmts = append([]ast.Stmt{el}, rest...)
		}
		el, err := fc.block(elStmts, lvl+1)
		if err != nil {
			return "", err
		}
		fc.locals = saved
		return fmt.Sprintf("%sif %s then\n%s\n%selse\n%s", ind(lvl), cond, th, ind(lvl), el), nil
	case *ast.SwitchStmt:
		if x.Init != nil {
			return "", fmt.Errorf("switch with init")
		}
		tag := ""
		if x.Tag != nil {
			t, err := fc.expr(x.Tag)
			if err != nil {
				return "", err
			}
			tag = t
		}
		// build an if-chain
		var deflt []ast.Stmt
		hasDefault := false
		type arm struct {
			cond string
			body []ast.Stmt
		}
		var arms []arm
		for _, cc := range x.Body.List {
			c := cc.(*ast.CaseClause)
			for _, st := range c.Body {
				if br, ok := st.(*ast.BranchStmt); ok && br.Tok == token.FALLTHROUGH {
					return "", fmt.Errorf("fallthrough")
				}
			}
			if n := len(c.Body); n > 0 {
				if br, ok := c.Body[n-1].(*ast.BranchStmt); ok && br.Tok == token.BREAK && br.Label == nil {
					c = &ast.CaseClause{List: c.List, Body: c.Body[:n-1]}
				}
			}
			if c.List == nil {
				deflt = c.Body
				hasDefault = true
				continue
			}
			var cs []string
			for _, ce := range c.List {
				e, err := fc.expr(ce)
				if err != nil {
					return "", err
				}
				if tag != "" {
					cs = append(cs, fmt.Sprintf("(%s == %s)", tag, e))
				} else {
					cs = append(cs, e)
				}
			}
			arms = append(arms, arm{strings.Join(cs, " || "), c.Body})
		}
		saved := copyMap(fc.locals)
		var sb strings.Builder
		for i, a := range arms {
			fc.locals = copyMap(saved)
			body := append(append([]ast.Stmt{}, a.body...), terminatorFill(a.body, rest)...)
			b, err := fc.block(body, lvl+1)
			if err != nil {
				return "", err
			}
			kw := "if"
			if i > 0 {
				kw = "else if"
			}
			fmt.Fprintf(&sb, "%s%s %s then\n%s\n", ind(lvl), kw, a.cond, b)
		}
		fc.locals = copyMap(saved)
		var dbody []ast.Stmt
		if hasDefault {
			dbody = append(append([]ast.Stmt{}, deflt...), terminatorFill(deflt, rest)...)
		} else {
			dbody = rest
		}
		d, err := fc.block(dbody, lvl+1)
		if err != nil {
			return "", err
		}
		fc.locals = saved
		if len(arms) == 0 {
			return d, nil
		}
		fmt.Fprintf(&sb, "%selse\n%s", ind(lvl), d)
		return sb.String(), nil
	case *ast.BlockStmt:
		return fc.block(append(append([]ast.Stmt{}, x.List...), rest...), lvl)
	}
	return "", fmt.Errorf("unsupported statement %T at %s", s, fc.p.Fset.Position(s.Pos()))
}

// terminatorFill returns `rest` when the statement list can fall off its end.
func terminatorFill(body []ast.Stmt, rest []ast.Stmt) []ast.Stmt {
	if len(body) > 0 {
		switch body[len(body)-1].(type) {
		case *ast.ReturnStmt:
			return nil
		}
	}
	return rest
}

func copyMap(m map[string]int) map[string]int {
	n := map[string]int{}
	for k, v := range m {
		n[k] = v
	}
	return n
}

func binop(op, a, b string) (string, error) {
	switch op {
	case "+", "-", "*":
		return fmt.Sprintf("(%s %s %s)", a, op, b), nil
	case "/":
		return fmt.Sprintf("(Int.tdiv %s %s)", a, b), nil
	case "%":
		return fmt.Sprintf("(Int.tmod %s %s)", a, b), nil
	case "&":
		return fmt.Sprintf("(Gzx.GoVal.iand %s %s)", a, b), nil
	case "|":
		return fmt.Sprintf("(Gzx.GoVal.ior %s %s)", a, b), nil
	case "^":
		return fmt.Sprintf("(Gzx.GoVal.ixor %s %s)", a, b), nil
	case "<<":
		return fmt.Sprintf("(Gzx.GoVal.ishl %s %s)", a, b), nil
	case ">>":
		return fmt.Sprintf("(Gzx.GoVal.ishr %s %s)", a, b), nil
	case "==":
		return fmt.Sprintf("(%s == %s)", a, b), nil
	case "!=":
		return fmt.Sprintf("(%s != %s)", a, b), nil
	case "<", "<=", ">", ">=":
		return fmt.Sprintf("(decide (%s %s %s))", a, op, b), nil
	case "&^":
		return fmt.Sprintf("(Gzx.GoVal.iand %s (Gzx.GoVal.inot %s))", a, b), nil
	case "&&":
		return fmt.Sprintf("(%s && %s)", a, b), nil
	case "||":
		return fmt.Sprintf("(%s || %s)", a, b), nil
	}
	return "", fmt.Errorf("unsupported operator %s", op)
}

func (fc *fnCtx) expr(ex ast.Expr) (string, error) {
	if k19Poly { // ext_k19.go: float64-typed expressions of a number-polymorphic kernel
		if s, handled, err := fc.k19Expr(ex); handled {
			return s, err
		}
	}
	if tv, ok := fc.p.TypesInfo.Types[ex]; ok && tv.Value != nil {
		switch tv.Value.Kind() {
		case constant.Int:
			s := tv.Value.ExactString()
			if strings.HasPrefix(s, "-") {
				return "(" + s + ")", nil
			}
			return s, nil
		case constant.Bool:
			if constant.BoolVal(tv.Value) {
				return "true", nil
			}
			return "false", nil
		}
	}
	if fc.m != nil {
		if s, handled, err := fc.mexpr(ex); handled {
			return s, err
		}
	}
	switch x := ex.(type) {
	case *ast.ParenExpr:
		return fc.expr(x.X)
	case *ast.Ident:
		if _, ok := fc.locals[x.Name]; ok {
			return fc.name(x.Name), nil
		}
		if x.Name == "nil" {
			return "false", nil // `return v, nil` : error result modelled as Bool failed=false
		}
		return "", fmt.Errorf("free identifier %s", x.Name)
	case *ast.SelectorExpr:
		if id, ok := x.X.(*ast.Ident); ok {
			if st, ok := fc.structs[id.Name]; ok {
				for j := 0; j < st.NumFields(); j++ {
					if st.Field(j).Name() == x.Sel.Name {
						lt, err := leanType(st.Field(j).Type())
						if err != nil && fc.m != nil {
							lt, err = leanTypeM(st.Field(j).Type())
						}
						if err != nil {
							return "", fmt.Errorf("field %s.%s: %v", id.Name, x.Sel.Name, err)
						}
						key := id.Name + "_" + x.Sel.Name
						fc.fieldsUsed[key] = lt
						return key, nil
					}
				}
			}
		}
		return "", fmt.Errorf("unsupported selector expression")
	case *ast.UnaryExpr:
		a, err := fc.expr(x.X)
		if err != nil {
			return "", err
		}
		switch x.Op {
		case token.SUB:
			return "(- " + a + ")", nil
		case token.NOT:
			return "(!" + a + ")", nil
		case token.ADD:
			return a, nil
		}
		return "", fmt.Errorf("unsupported unary %s", x.Op)
	case *ast.BinaryExpr:
		a, err := fc.expr(x.X)
		if err != nil {
			return "", err
		}
		b, err := fc.expr(x.Y)
		if err != nil {
			return "", err
		}
		// unsigned arithmetic would need wrap-around: refuse
		if t := fc.p.TypesInfo.TypeOf(x); t != nil {
			if bt, ok := t.Underlying().(*types.Basic); ok && bt.Info()&types.IsUnsigned != 0 {
				switch x.Op {
				case token.SUB, token.SHL, token.MUL, token.ADD:
					return "", fmt.Errorf("unsigned arithmetic (wrap-around) not in subset")
				}
			}
		}
		return binop(x.Op.String(), a, b)
	case *ast.CallExpr:
		if tv, ok := fc.p.TypesInfo.Types[x.Fun]; ok && tv.IsType() && len(x.Args) == 1 {
			// integer conversion between signed integer types: value-preserving on the ranges used
			if _, err := leanType(tv.Type); err == nil {
				return fc.expr(x.Args[0])
			}
		}
		return "", fmt.Errorf("call in expression")
	}
	return "", fmt.Errorf("unsupported expression %T", ex)
}

var _ = sort.Strings
