// Monadic target of the translator (kinds `funcm` and `region`).
//
//	funcm  <LeanModule> <leanName> <import/path> <GoFunc | Recv.Method>
//	    like `func`, but the Lean definition lives in `Res = Except Fault` (lean/Gzx/GoM.lean) and
//	    the subset additionally has
//	      * parameters / struct fields / locals of type string, []byte, []int ... (Lean `List Int`),
//	        `len(x)`, CHECKED index reads `x[i]` and writes `x[i] = v`, `make([]T, n)`, `s[a:b]` of
//	        strings as call arguments: a failing check is `.error (.panic _)`, never a default value;
//	      * package-level constant strings and []int / []byte literals read by index (inlined as tables);
//	      * `/`, `%` by a non-constant and shifts by a signed non-constant: checked;
//	      * unsigned integer arithmetic (uint8/16/32/64): wrap-around made explicit (`GoM.wrap N`);
//	      * counted loops `for i := a; i <|<=|>|>= b; i++|i--|i += k|i -= k { body }` and
//	        `for i, v := range xs` over a []T: the body becomes its own definition
//	        `<leanName>_body<k> <free variables> (i : Int) (st : σ) : Ctl σ ρ`, where σ is the tuple of
//	        the locals the body assigns (in declaration order) and the outcome is next / break /
//	        return / panic; the loop is `GoM.loop body d n i₀ st₀`, structural recursion over the trip
//	        count `n` computed from the header (`GoM.tripUp/tripDown`);
//	      * `break`, `continue`, `x++`, `if init; cond`, builtin `min`/`max`,
//	        `strings.Index(<ASCII constant>, string(<byte>))`, calls of functions translated earlier
//	        in the same module.
//	region <LeanModule> <leanName> <import/path> <GoFunc>@<first>..<last>><out1>,<out2>,...
//	    the top-level statements of GoFunc from the one that declares local <first> up to the last
//	    one that assigns local <last>; locals / parameters declared outside the region and used in it
//	    become parameters (in declaration order); the result is the tuple of the <out> locals.
//	    Statements that only assign variables of non-integer types (objects) and bare calls are
//	    skipped: the region describes the integer data flow only.
//
//
// Round 4 (work package c16tie) — whole methods that MUTATE their receiver (run-time: lean/Gzx/GoMTie.lean):
//      * every translatable field of a struct parameter (`b.bits`, `b.size` …) is a local of the translation: `b.f = v`,
//        `b.f[i] op= v`, `b.f++` rebind it (SSA style); the fields written through a POINTER parameter are returned after
//        the Go results, in parameter / field order (a method without results returns just them); a slice parameter whose
//        elements are written is returned the same way.  Two pointer parameters are assumed not to alias;
//      * `x == nil` of a pointer-to-struct parameter is the Bool parameter `x_isNil`; a result of type *T whose every
//        `return` yields a struct parameter or `&T{…}` is returned as the fields of T; `x = F(args)` with F such a
//        constructor translated earlier re-points the struct parameter;
//      * `r.M(args)` with r a struct parameter and M a method translated EARLIER into the same module (its only struct
//        parameter being its receiver): as an expression when M writes nothing, as a statement otherwise (the written
//        fields of r are rebound); `copy(dst, src)` / `copy(dst[a:b], src)` on local / field slices (`cap = len`);
//      * `for cond { … }` (and any `for init; cond; post` whose header is not counted: non-constant step, bound that the
//        body changes, loop variable assigned in the body): `Gzx.GoM.whileLoop body fuel st`, the definition then takes
//        `(fuel : Nat)` first; conjuncts of the condition are tested left to right, so a checked read on the right of `&&`
//        is only made when the left holds; `for i := range xs` whose body writes elements of xs (no value variable);
//      * `a[i], a[j] = a[j], a[i]`: operands first, then the writes left to right on the same slice;
//      * `bits.Reverse32` / `bits.TrailingZeros32` as the specified functions `Gzx.GoM.rev32` / `tz32`; `[]int{…}` and `nil`
//        as results of slice type; `int(<float64 expression>)` with the float arithmetic as Lean `Float` (opaque to proofs:
//        the kernel keeps a definition, its theorem fails by name); Go identifiers that are Lean keywords are escaped;
//      * block scoping: names declared in a nested block go out of scope at its end (sibling blocks may reuse a name);
//      * in functions that work on slice state of a struct parameter ("tie mode") an `if` whose branches fall through and
//        which is followed by more statements is ONE control value (`.next (vars)` per branch, joined by `thenR`/`thenC`)
//        instead of the continuation being duplicated into both branches.
//
// A function that does not fit yields NO definition, `untranslatable` in gen-manifest.json and
// `def has_<leanName> : Bool := false` in the generated module.
package main

import (
	"fmt"
	"go/ast"
	"go/constant"
	"go/token"
	"go/types"
	"sort"
	"strings"

	"golang.org/x/tools/go/packages"
)

type mbind struct{ name, expr string }

type mstate struct {
	pre       []mbind
	tmp       int
	ltype     map[string]string // Go local / parameter -> Lean type
	declOrder []string
	aux       []string // auxiliary definitions (loop bodies)
	tables    []string // inlined package-level tables
	tableSeen map[string]bool
	declSeen  map[string]bool
	lean      string
	nloops    int
	retType   string
	region    bool
	body      bool     // translating a loop body
	state     []string // state variables of the innermost loop
	inSwitch  int
	module    string
	dropRes   []bool // result positions of object type that the translation omits
	join      []string // non-nil: translating a branch of a joined `if`; falling off the end yields these
	inJoin    bool
	// --- round 4 (wp c16tie): mutable receiver state, while loops, callee methods ---
	outVars  []string // struct-field locals ("b_bits") / slice parameters the function writes: returned with every return
	void     bool     // the Go function has no results
	resTypes []string // Lean types of the (non-dropped) Go results
	fuelUsed bool     // a `for cond {}` loop (or a callee with one) was emitted: the definition takes `(fuel : Nat)`
	tie      bool     // the function reads / writes slice state of a struct parameter: round-4 translation rules
	structRes map[int]*types.Struct // result positions of type *T (T a struct of translatable fields) returned as the fields
}

// ctorInfo: a translated function `func F(args) *T { return &T{...} }` (callable as `x = F(args)` for a struct parameter x)
type ctorInfo struct {
	lean   string
	nplain int
	fields []string
}

var ctorCallees = map[string]ctorInfo{} // "<module>|<pkg>.<Func>"

// structFields: names and Lean types of the fields of st, if all are translatable
func structFields(st *types.Struct) ([]string, []string, bool) {
	var ns, ts []string
	for j := 0; j < st.NumFields(); j++ {
		lt, err := leanTypeM(st.Field(j).Type())
		if err != nil {
			return nil, nil, false
		}
		ns = append(ns, st.Field(j).Name())
		ts = append(ts, lt)
	}
	return ns, ts, len(ns) > 0
}

// structResultOK: every `return` of fd yields, at result position ri, a struct parameter or a composite literal of st
func (fc *fnCtx) structResultOK(fd *ast.FuncDecl, ri int) bool {
	ok, any := true, false
	ast.Inspect(fd.Body, func(n ast.Node) bool {
		switch x := n.(type) {
		case *ast.FuncLit:
			return false
		case *ast.ReturnStmt:
			if ri >= len(x.Results) {
				ok = false
				return false
			}
			any = true
			r := x.Results[ri]
			if u, isU := r.(*ast.UnaryExpr); isU && u.Op == token.AND {
				r = u.X
			}
			switch y := r.(type) {
			case *ast.Ident:
				if _, isS := fc.structs[y.Name]; !isS {
					ok = false
				}
			case *ast.CompositeLit:
			default:
				ok = false
			}
		}
		return ok
	})
	return ok && any
}

// scopeEnd is a synthetic statement appended to a block when the block's statements are spliced in front of
// the statements that follow it: the names the block declared go out of scope there.
type scopeEnd struct {
	ast.EmptyStmt
	names []string
}

// methodInfo: a translated method whose only struct parameter is its receiver (callable from later kernels).
type methodInfo struct {
	lean    string
	fields  []string // receiver fields that are parameters, in parameter order
	nplain  int
	nres    int      // Go results that are part of the translation
	outs    []string // receiver fields written (returned after the Go results)
	fuel    bool
	resBool bool
}

var methodCallees = map[string]methodInfo{} // "<module>|<pkg>.<Recv>.<Method>"

// curFC: the function being translated (assignedIn needs type information to see through method calls).
var curFC *fnCtx

// extraImports: generated modules that need more than Gzx.GoM (read by main.go when it writes the header).
var extraImports = map[string][]string{}

func needTie(module string) {
	for _, i := range extraImports[module] {
		if i == "Gzx.GoMTie" {
			return
		}
	}
	extraImports[module] = append(extraImports[module], "Gzx.GoMTie")
}

type calleeInfo struct {
	lean    string
	nparams int
	nres    int
}

var callees = map[string]calleeInfo{} // "<module>|<pkg>.<func>" -> info

var moduleTables = map[string]bool{} // "<module>|tbl_<name>": emitted once per generated module

func leanTypeM(t types.Type) (string, error) {
	if lt, err := leanType(t); err == nil {
		return lt, nil
	}
	if lt, ok := extLeanType(t); ok { // ext_k17k20.go
		return lt, nil
	}
	if lt, ok := k19Type(t); ok { // ext_k19.go: float64 / []float64 of a number-polymorphic kernel (kind funcn)
		return lt, nil
	}
	if lt, ok := k01decType(t); ok { // wp k01dec (ext_k01dec.go): object types of the QR decoder
		return lt, nil
	}
	if lt, ok := k11bType(t); ok { // wp k11b (ext_k11b.go): []bool, opaque object tokens
		return lt, nil
	}
	if lt, ok := k03wType(t); ok { // wp k03w (ext_k03w.go)
		return lt, nil
	}
	if lt, ok := k01dec2Type(t); ok { // wp k01dec2 (ext_k01dec2.go): func(int, int) bool as an abstract predicate
		return lt, nil
	}
	if lt, ok := k11b2Type(t); ok { // wp k11b2 (ext_k11b2.go): intSet
		return lt, nil
	}
	switch u := t.Underlying().(type) {
	case *types.Basic:
		if u.Info()&types.IsString != 0 {
			return "List Int", nil
		}
	case *types.Slice:
		if lt, err := leanType(u.Elem()); err == nil && lt == "Int" {
			return "List Int", nil
		}
	case *types.Array:
		if lt, err := leanType(u.Elem()); err == nil && lt == "Int" {
			return "List Int", nil
		}
	}
	return "", fmt.Errorf("unsupported type %s", t)
}

func (fc *fnCtx) declare(name, lt string) {
	if _, seen := fc.locals[name]; seen {
		fc.locals[name]++
	} else {
		fc.locals[name] = 0
	}
	if !fc.m.declSeen[name] {
		fc.m.declSeen[name] = true
		fc.m.declOrder = append(fc.m.declOrder, name)
	}
	fc.m.ltype[name] = lt
}

func (fc *fnCtx) bump(name string) string {
	fc.locals[name]++
	return fc.name(name)
}

func (fc *fnCtx) tmpName() string {
	fc.m.tmp++
	return fmt.Sprintf("t%d", fc.m.tmp)
}

func (fc *fnCtx) bind(expr string) string {
	n := fc.tmpName()
	fc.m.pre = append(fc.m.pre, mbind{n, expr})
	return n
}

// flush emits the pending checked operations as nested binds.
func (fc *fnCtx) flush(lvl int) string {
	var sb strings.Builder
	try := "Gzx.GoM.tryR"
	if fc.m.body {
		try = "Gzx.GoM.tryC"
	}
	for _, b := range fc.m.pre {
		fmt.Fprintf(&sb, "%s%s (%s) fun %s =>\n", ind(lvl), try, b.expr, b.name)
	}
	fc.m.pre = nil
	return sb.String()
}

func unsignedBits(t types.Type) int {
	if t == nil {
		return 0
	}
	b, ok := t.Underlying().(*types.Basic)
	if !ok || b.Info()&types.IsUnsigned == 0 {
		return 0
	}
	switch b.Kind() {
	case types.Uint8:
		return 8
	case types.Uint16:
		return 16
	case types.Uint32:
		return 32
	default:
		return 64
	}
}

func intLitList(bs []int64) string {
	parts := make([]string, len(bs))
	for i, b := range bs {
		if b < 0 {
			parts[i] = fmt.Sprintf("(%d)", b)
		} else {
			parts[i] = fmt.Sprintf("%d", b)
		}
	}
	return "[" + strings.Join(parts, ", ") + "]"
}

// table registers a package-level constant list and returns its Lean name.
func (fc *fnCtx) table(name string, vals []int64) string {
	ln := "tbl_" + name
	if !fc.m.tableSeen[ln] && !moduleTables[fc.m.module+"|"+ln] {
		fc.m.tableSeen[ln] = true
		fc.m.tables = append(fc.m.tables, fmt.Sprintf("/-- package-level table %s (inlined) -/\ndef %s : List Int := %s\n", name, ln, intLitList(vals)))
	}
	return ln
}

func stringBytes(s string) []int64 {
	out := make([]int64, len(s))
	for i := 0; i < len(s); i++ {
		out[i] = int64(s[i])
	}
	return out
}

// constList evaluates a package-level []int / []byte / string initialiser to a list of integers.
func (fc *fnCtx) constList(p *packages.Package, ex ast.Expr, depth int) ([]int64, bool) {
	if depth > 4 {
		return nil, false
	}
	if tv, ok := p.TypesInfo.Types[ex]; ok && tv.Value != nil && tv.Value.Kind() == constant.String {
		return stringBytes(constant.StringVal(tv.Value)), true
	}
	switch x := ex.(type) {
	case *ast.ParenExpr:
		return fc.constList(p, x.X, depth)
	case *ast.CallExpr: // []byte("...")
		if tv, ok := p.TypesInfo.Types[x.Fun]; ok && tv.IsType() && len(x.Args) == 1 {
			if _, err := leanTypeM(tv.Type); err == nil {
				return fc.constList(p, x.Args[0], depth+1)
			}
		}
	case *ast.CompositeLit:
		var out []int64
		for _, el := range x.Elts {
			if _, ok := el.(*ast.KeyValueExpr); ok {
				return nil, false
			}
			tv, ok := p.TypesInfo.Types[el]
			if !ok || tv.Value == nil || tv.Value.Kind() != constant.Int {
				return nil, false
			}
			v, exact := constant.Int64Val(tv.Value)
			if !exact {
				return nil, false
			}
			out = append(out, v)
		}
		return out, true
	case *ast.Ident:
		if obj, ok := p.TypesInfo.Uses[x].(*types.Var); ok && obj.Pkg() != nil && obj.Parent() == obj.Pkg().Scope() {
			if op := pkgs[obj.Pkg().Path()]; op != nil {
				if init, ip := findVarInit(op, obj.Name()); init != nil {
					return fc.constList(ip, init, depth+1)
				}
			}
		}
	}
	return nil, false
}

// lexpr translates a list-valued expression (slice / string).
func (fc *fnCtx) lexpr(ex ast.Expr) (string, error) {
	if s, handled, err := fc.dmxLexpr(ex); handled { // wp dmmirror (ext_dmmirror.go)
		return s, err
	}
	if s, handled, err := fc.k11b2Lexpr(ex); handled { // wp k11b2 (ext_k11b2.go): append, []byte(..)
		return s, err
	}
	if tv, ok := fc.p.TypesInfo.Types[ex]; ok && tv.Value != nil && tv.Value.Kind() == constant.String {
		if id, ok := ex.(*ast.Ident); ok {
			return fc.table(id.Name, stringBytes(constant.StringVal(tv.Value))), nil
		}
		return intLitList(stringBytes(constant.StringVal(tv.Value))), nil
	}
	if s, handled, err := fc.extLexpr(ex); handled { // ext_k17k20.go
		return s, err
	}
	if s, handled, err := fc.k03wLexpr(ex); handled { // wp k03w (ext_k03w.go)
		return s, err
	}
	switch x := ex.(type) {
	case *ast.ParenExpr:
		return fc.lexpr(x.X)
	case *ast.Ident:
		if _, ok := fc.locals[x.Name]; ok {
			if !isListLT(fc.m.ltype[x.Name]) {
				return "", fmt.Errorf("%s is not a slice/string", x.Name)
			}
			return fc.name(x.Name), nil
		}
		if obj, ok := fc.p.TypesInfo.Uses[x].(*types.Var); ok && obj.Pkg() != nil && obj.Parent() == obj.Pkg().Scope() {
			// package-level table: sound only if nothing in the package assigns to it or its elements
			if vals, ok := fc.constList(fc.p, x, 0); ok && !assignedAnywhere(fc.p, obj) {
				return fc.table(x.Name, vals), nil
			}
			return "", fmt.Errorf("package-level %s is not a constant table", x.Name)
		}
		return "", fmt.Errorf("free identifier %s", x.Name)
	case *ast.SelectorExpr:
		s, err := fc.expr(x) // struct field parameter
		return s, err
	case *ast.SliceExpr:
		t := fc.p.TypesInfo.TypeOf(x.X)
		if b, ok := t.Underlying().(*types.Basic); !ok || b.Info()&types.IsString == 0 || x.Slice3 {
			return "", fmt.Errorf("slice expression on a non-string")
		}
		base, err := fc.lexpr(x.X)
		if err != nil {
			return "", err
		}
		lo, hi := "0", "(Gzx.GoM.len "+base+")"
		if x.Low != nil {
			if lo, err = fc.expr(x.Low); err != nil {
				return "", err
			}
		}
		if x.High != nil {
			if hi, err = fc.expr(x.High); err != nil {
				return "", err
			}
		}
		return fc.bind(fmt.Sprintf("Gzx.GoM.slice %s %s %s", base, lo, hi)), nil
	}
	return "", fmt.Errorf("unsupported slice/string expression %T", ex)
}

// assignedAnywhere reports whether a package-level variable (or one of its elements) is assigned,
// has its address taken, or is passed to append/copy anywhere in its package outside its declaration.
func assignedAnywhere(p *packages.Package, obj *types.Var) bool {
	op := pkgs[obj.Pkg().Path()]
	if op == nil {
		return true
	}
	found := false
	refers := func(e ast.Expr) bool {
		for {
			switch x := e.(type) {
			case *ast.ParenExpr:
				e = x.X
			case *ast.IndexExpr:
				e = x.X
			case *ast.SliceExpr:
				e = x.X
			case *ast.Ident:
				return op.TypesInfo.Uses[x] == obj
			default:
				return false
			}
		}
	}
	for _, f := range op.Syntax {
		ast.Inspect(f, func(n ast.Node) bool {
			switch x := n.(type) {
			case *ast.AssignStmt:
				for _, l := range x.Lhs {
					if refers(l) {
						found = true
					}
				}
			case *ast.IncDecStmt:
				if refers(x.X) {
					found = true
				}
			case *ast.UnaryExpr:
				if x.Op == token.AND && refers(x.X) {
					found = true
				}
			case *ast.CallExpr:
				if id, ok := x.Fun.(*ast.Ident); ok && (id.Name == "copy" || id.Name == "append") && len(x.Args) > 0 && refers(x.Args[0]) {
					found = true
				}
			}
			return !found
		})
	}
	return found
}

// mexpr: expression forms that only exist in the monadic target.  handled=false: fall through to expr.
func (fc *fnCtx) mexpr(ex ast.Expr) (string, bool, error) {
	fail := func(f string, a ...interface{}) (string, bool, error) { return "", true, fmt.Errorf(f, a...) }
	if s, handled, err := fc.extExpr(ex); handled { // ext_k17k20.go
		return s, true, err
	}
	if s, handled, err := fc.dmxMexpr(ex); handled { // wp dmmirror (ext_dmmirror.go)
		return s, true, err
	}
	if s, handled, err := fc.k01decMexpr(ex); handled { // wp k01dec (ext_k01dec.go)
		return s, true, err
	}
	if s, handled, err := fc.k11bMexpr(ex); handled { // wp k11b (ext_k11b.go)
		return s, true, err
	}
	if s, handled, err := fc.k03wMexpr(ex); handled { // wp k03w (ext_k03w.go)
		return s, true, err
	}
	if s, handled, err := fc.k01dec2Mexpr(ex); handled { // wp k01dec2 (ext_k01dec2.go): call of a function-valued field
		return s, true, err
	}
	if s, handled, err := fc.k11b2Mexpr(ex); handled { // wp k11b2 (ext_k11b2.go)
		return s, true, err
	}
	switch x := ex.(type) {
	case *ast.SelectorExpr:
		if key, lt, ok := fc.fieldKey(x); ok {
			fc.fieldsUsed[key] = lt
			if _, seen := fc.locals[key]; seen {
				return fc.name(key), true, nil
			}
			return key, true, nil
		}
	case *ast.IndexExpr:
		base, err := fc.lexpr(x.X)
		if err != nil {
			return "", true, err
		}
		i, err := fc.expr(x.Index)
		if err != nil {
			return "", true, err
		}
		return fc.bind(fmt.Sprintf("Gzx.GoM.idx %s %s", base, i)), true, nil
	case *ast.UnaryExpr:
		if x.Op == token.XOR || (x.Op == token.SUB && unsignedBits(fc.p.TypesInfo.TypeOf(x)) > 0) {
			a, err := fc.expr(x.X)
			if err != nil {
				return "", true, err
			}
			r := "(Gzx.GoVal.inot " + a + ")"
			if x.Op == token.SUB {
				r = "(- " + a + ")"
			}
			if n := unsignedBits(fc.p.TypesInfo.TypeOf(x)); n > 0 {
				r = fmt.Sprintf("(Gzx.GoM.wrap %d %s)", n, r)
			}
			return r, true, nil
		}
	case *ast.BinaryExpr:
		if x.Op == token.EQL || x.Op == token.NEQ {
			var other ast.Expr
			if id, ok := x.Y.(*ast.Ident); ok && id.Name == "nil" {
				other = x.X
			} else if id, ok := x.X.(*ast.Ident); ok && id.Name == "nil" {
				other = x.Y
			}
			if id, ok := other.(*ast.Ident); ok {
				if _, isS := fc.structs[id.Name]; isS {
					key := id.Name + "_isNil"
					if _, seen := fc.locals[key]; !seen {
						return fail("nil test of value parameter %s", id.Name)
					}
					fc.fieldsUsed[key] = "Bool"
					if x.Op == token.EQL {
						return fc.name(key), true, nil
					}
					return "(!" + fc.name(key) + ")", true, nil
				}
			}
		}
		switch x.Op {
		case token.LAND, token.LOR:
			a, err := fc.expr(x.X)
			if err != nil {
				return "", true, err
			}
			n0 := len(fc.m.pre)
			b, err := fc.expr(x.Y)
			if err != nil {
				return "", true, err
			}
			if len(fc.m.pre) != n0 {
				return fail("checked operation on the right of a short-circuit operator")
			}
			s, err := binop(x.Op.String(), a, b)
			return s, true, err
		case token.QUO, token.REM, token.SHL, token.SHR, token.ADD, token.SUB, token.MUL:
			a, err := fc.expr(x.X)
			if err != nil {
				return "", true, err
			}
			b, err := fc.expr(x.Y)
			if err != nil {
				return "", true, err
			}
			ytv := fc.p.TypesInfo.Types[x.Y]
			yconst := ytv.Value != nil && ytv.Value.Kind() == constant.Int
			var r string
			switch x.Op {
			case token.QUO, token.REM:
				if yconst && constant.Sign(ytv.Value) != 0 {
					r, _ = binop(x.Op.String(), a, b)
				} else if x.Op == token.QUO {
					r = fc.bind(fmt.Sprintf("Gzx.GoM.div %s %s", a, b))
				} else {
					r = fc.bind(fmt.Sprintf("Gzx.GoM.mod %s %s", a, b))
				}
			case token.SHL, token.SHR:
				if (yconst && constant.Sign(ytv.Value) >= 0) || unsignedBits(ytv.Type) > 0 {
					r, _ = binop(x.Op.String(), a, b)
				} else if x.Op == token.SHL {
					r = fc.bind(fmt.Sprintf("Gzx.GoM.shl %s %s", a, b))
				} else {
					r = fc.bind(fmt.Sprintf("Gzx.GoM.shr %s %s", a, b))
				}
			default:
				r, _ = binop(x.Op.String(), a, b)
			}
			if n := unsignedBits(fc.p.TypesInfo.TypeOf(x)); n > 0 && x.Op != token.QUO && x.Op != token.REM && x.Op != token.SHR {
				r = fmt.Sprintf("(Gzx.GoM.wrap %d %s)", n, r)
			}
			return r, true, nil
		}
	case *ast.CallExpr:
		// conversions
		if tv, ok := fc.p.TypesInfo.Types[x.Fun]; ok && tv.IsType() && len(x.Args) == 1 {
			if lt, err := leanType(tv.Type); err == nil && lt == "Int" {
				if isFloat(fc.p.TypesInfo.TypeOf(x.Args[0])) {
					// int(<float64 expression>): the float arithmetic is Lean `Float` (IEEE binary64), opaque to proofs
					f, err := fc.fexpr(x.Args[0])
					if err != nil {
						return "", true, err
					}
					needTie(fc.m.module)
					r := "(Gzx.GoM.floatToInt " + f + ")"
					if n := unsignedBits(tv.Type); n > 0 {
						r = fmt.Sprintf("(Gzx.GoM.wrap %d %s)", n, r)
					}
					return r, true, nil
				}
				a, err := fc.expr(x.Args[0])
				if err != nil {
					return "", true, err
				}
				src := fc.p.TypesInfo.TypeOf(x.Args[0])
				if n := unsignedBits(tv.Type); n > 0 {
					if m := unsignedBits(src); m > 0 && m <= n {
						return a, true, nil
					}
					return fmt.Sprintf("(Gzx.GoM.wrap %d %s)", n, a), true, nil
				}
				// signed target
				tb := tv.Type.Underlying().(*types.Basic)
				switch tb.Kind() {
				case types.Int, types.Int64:
					return a, true, nil
				case types.Int32:
					if m := unsignedBits(src); m > 0 && m < 32 {
						return a, true, nil
					}
					if sb, ok := src.Underlying().(*types.Basic); ok && sb.Kind() == types.Int32 {
						return a, true, nil
					}
				}
				return fail("narrowing conversion to %s", tv.Type)
			}
			return fail("unsupported conversion to %s", tv.Type)
		}
		if id, ok := x.Fun.(*ast.Ident); ok {
			if _, isBuiltin := fc.p.TypesInfo.Uses[id].(*types.Builtin); isBuiltin {
				switch id.Name {
				case "len":
					if len(x.Args) == 1 {
						l, err := fc.lexpr(x.Args[0])
						if err != nil {
							return "", true, err
						}
						return "(Gzx.GoM.len " + l + ")", true, nil
					}
				case "min", "max":
					if len(x.Args) >= 2 {
						if t := fc.p.TypesInfo.TypeOf(x); t != nil {
							if lt, err := leanType(t); err != nil || lt != "Int" {
								return fail("%s on non-integers", id.Name)
							}
						}
						acc, err := fc.expr(x.Args[0])
						if err != nil {
							return "", true, err
						}
						for _, a := range x.Args[1:] {
							b, err := fc.expr(a)
							if err != nil {
								return "", true, err
							}
							acc = fmt.Sprintf("(%s %s %s)", id.Name, acc, b)
						}
						return acc, true, nil
					}
				}
				return fail("builtin %s", id.Name)
			}
			// call of a function translated earlier into the same module
			if fn, ok := fc.p.TypesInfo.Uses[id].(*types.Func); ok && fn.Pkg() != nil {
				rel := strings.TrimPrefix(strings.TrimPrefix(fn.Pkg().Path(), modPath), "/")
				if rel == "" {
					rel = "."
				}
				if ci, ok := callees[fc.m.module+"|"+rel+"."+fn.Name()]; ok && ci.nparams == len(x.Args) {
					var as []string
					for _, a := range x.Args {
						var s string
						var err error
						if _, lerr := leanType(fc.p.TypesInfo.TypeOf(a)); lerr != nil {
							s, err = fc.lexpr(a)
						} else {
							s, err = fc.expr(a)
						}
						if err != nil {
							return "", true, err
						}
						as = append(as, s)
					}
					return fc.bind(ci.lean + " " + strings.Join(as, " ")), true, nil
				}
			}
			return fail("call of %s", id.Name)
		}
		if sel, ok := x.Fun.(*ast.SelectorExpr); ok && len(x.Args) == 0 {
			if id, ok := sel.X.(*ast.Ident); ok {
				if _, isStruct := fc.structs[id.Name]; isStruct {
					if field, ok := trivialGetter(fc.p, sel); ok {
						s, err := fc.expr(&ast.SelectorExpr{X: id, Sel: &ast.Ident{Name: field}})
						return s, true, err
					}
					if _, _, ok := fc.methodCallee(x); !ok {
						return fail("method call %s.%s is not a plain getter", id.Name, sel.Sel.Name)
					}
				}
			}
		}
		if recv, mi, ok := fc.methodCallee(x); ok {
			// a translated method of a struct parameter, in expression position: it must not write its receiver
			if len(mi.outs) != 0 || mi.nres != 1 {
				return fail("method call %s.%s in an expression writes its receiver / has no single result", recv, mi.lean)
			}
			call, err := fc.methodCallText(recv, mi, x)
			if err != nil {
				return "", true, err
			}
			return fc.bind(call), true, nil
		}
		if sel, ok := x.Fun.(*ast.SelectorExpr); ok {
			if pk, ok := sel.X.(*ast.Ident); ok {
				if pn, ok := fc.p.TypesInfo.Uses[pk].(*types.PkgName); ok && pn.Imported().Path() == "math/bits" && len(x.Args) == 1 {
					fn := map[string]string{"Reverse32": "rev32", "TrailingZeros32": "tz32"}[sel.Sel.Name]
					if fn == "" {
						return fail("bits.%s is not a specified function", sel.Sel.Name)
					}
					a, err := fc.expr(x.Args[0])
					if err != nil {
						return "", true, err
					}
					needTie(fc.m.module)
					return fmt.Sprintf("(Gzx.GoM.%s %s)", fn, a), true, nil
				}
			}
		}
		if sel, ok := x.Fun.(*ast.SelectorExpr); ok {
			if pk, ok := sel.X.(*ast.Ident); ok {
				if pn, ok := fc.p.TypesInfo.Uses[pk].(*types.PkgName); ok && pn.Imported().Path() == "strings" && sel.Sel.Name == "Index" && len(x.Args) == 2 {
					ctv := fc.p.TypesInfo.Types[x.Args[0]]
					if ctv.Value == nil || ctv.Value.Kind() != constant.String {
						return fail("strings.Index on a non-constant string")
					}
					cs := constant.StringVal(ctv.Value)
					for i := 0; i < len(cs); i++ {
						if cs[i] >= 0x80 {
							return fail("strings.Index on a non-ASCII constant")
						}
					}
					conv, ok := x.Args[1].(*ast.CallExpr)
					if !ok || len(conv.Args) != 1 {
						return fail("strings.Index needle is not string(byte)")
					}
					if tv, ok := fc.p.TypesInfo.Types[conv.Fun]; !ok || !tv.IsType() {
						return fail("strings.Index needle is not string(byte)")
					} else if b, ok := tv.Type.Underlying().(*types.Basic); !ok || b.Info()&types.IsString == 0 {
						return fail("strings.Index needle is not string(byte)")
					}
					if unsignedBits(fc.p.TypesInfo.TypeOf(conv.Args[0])) != 8 {
						return fail("strings.Index needle is not string(byte)")
					}
					b, err := fc.expr(conv.Args[0])
					if err != nil {
						return "", true, err
					}
					var alpha string
					if id, ok := x.Args[0].(*ast.Ident); ok {
						alpha = fc.table(id.Name, stringBytes(cs))
					} else {
						alpha = intLitList(stringBytes(cs))
					}
					return fmt.Sprintf("(Gzx.GoM.strIndexByte %s %s)", alpha, b), true, nil
				}
			}
		}
		return fail("call in expression")
	}
	return "", false, nil
}

func isFloat(t types.Type) bool {
	if t == nil {
		return false
	}
	b, ok := t.Underlying().(*types.Basic)
	return ok && b.Info()&types.IsFloat != 0
}

// fexpr translates a float64-valued expression into Lean `Float` (IEEE binary64, the same operations): constants,
// `float64(<int>)`, + - * /, math.Ceil / Floor / Trunc / Sqrt.  Theorems cannot look inside `Float`: a kernel that
// acquires float arithmetic keeps its definition, and the theorem about it fails by name.
func (fc *fnCtx) fexpr(ex ast.Expr) (string, error) {
	if tv, ok := fc.p.TypesInfo.Types[ex]; ok && tv.Value != nil {
		r := constant.ToFloat(tv.Value)
		if r.Kind() == constant.Unknown {
			return "", fmt.Errorf("float constant")
		}
		num, den := constant.Num(r), constant.Denom(r)
		n, ok1 := constant.Int64Val(num)
		d, ok2 := constant.Int64Val(den)
		lim := int64(1) << 53
		if num.Kind() != constant.Int || den.Kind() != constant.Int || !ok1 || !ok2 || n >= lim || n <= -lim || d >= lim {
			return "", fmt.Errorf("float constant is not a small rational")
		}
		if d == 1 {
			return fmt.Sprintf("(Float.ofInt (%d))", n), nil
		}
		return fmt.Sprintf("(Float.ofInt (%d) / Float.ofInt %d)", n, d), nil
	}
	switch x := ex.(type) {
	case *ast.ParenExpr:
		return fc.fexpr(x.X)
	case *ast.BinaryExpr:
		switch x.Op {
		case token.ADD, token.SUB, token.MUL, token.QUO:
			a, err := fc.fexpr(x.X)
			if err != nil {
				return "", err
			}
			b, err := fc.fexpr(x.Y)
			if err != nil {
				return "", err
			}
			return fmt.Sprintf("(%s %s %s)", a, x.Op.String(), b), nil
		}
	case *ast.UnaryExpr:
		if x.Op == token.SUB {
			a, err := fc.fexpr(x.X)
			if err != nil {
				return "", err
			}
			return "(- " + a + ")", nil
		}
	case *ast.CallExpr:
		if tv, ok := fc.p.TypesInfo.Types[x.Fun]; ok && tv.IsType() && len(x.Args) == 1 && isFloat(tv.Type) {
			src := fc.p.TypesInfo.TypeOf(x.Args[0])
			if isFloat(src) {
				return fc.fexpr(x.Args[0])
			}
			if lt, err := leanType(src); err == nil && lt == "Int" {
				a, err := fc.expr(x.Args[0])
				if err != nil {
					return "", err
				}
				return "(Float.ofInt " + a + ")", nil
			}
		}
		if sel, ok := x.Fun.(*ast.SelectorExpr); ok && len(x.Args) == 1 {
			if pk, ok := sel.X.(*ast.Ident); ok {
				if pn, ok := fc.p.TypesInfo.Uses[pk].(*types.PkgName); ok && pn.Imported().Path() == "math" {
					fn := map[string]string{"Ceil": "Float.ceil", "Floor": "Float.floor", "Trunc": "Float.trunc", "Sqrt": "Float.sqrt"}[sel.Sel.Name]
					if fn != "" {
						a, err := fc.fexpr(x.Args[0])
						if err != nil {
							return "", err
						}
						return "(" + fn + " " + a + ")", nil
					}
				}
			}
		}
	}
	return "", fmt.Errorf("unsupported float expression %T", ex)
}

// trivialGetter: the method selected by sel is `func (r *T) M() U { return r.f }` -> "f".
func trivialGetter(p *packages.Package, sel *ast.SelectorExpr) (string, bool) {
	fn, ok := p.TypesInfo.Uses[sel.Sel].(*types.Func)
	if !ok || fn.Pkg() == nil {
		return "", false
	}
	op := pkgs[fn.Pkg().Path()]
	if op == nil {
		return "", false
	}
	for _, f := range op.Syntax {
		for _, d := range f.Decls {
			fd, ok := d.(*ast.FuncDecl)
			if !ok || fd.Recv == nil || fd.Body == nil || op.TypesInfo.Defs[fd.Name] != fn {
				continue
			}
			if len(fd.Recv.List) != 1 || len(fd.Recv.List[0].Names) != 1 || len(fd.Body.List) != 1 {
				return "", false
			}
			rs, ok := fd.Body.List[0].(*ast.ReturnStmt)
			if !ok || len(rs.Results) != 1 {
				return "", false
			}
			se, ok := rs.Results[0].(*ast.SelectorExpr)
			if !ok {
				return "", false
			}
			if id, ok := se.X.(*ast.Ident); !ok || id.Name != fd.Recv.List[0].Names[0].Name {
				return "", false
			}
			return se.Sel.Name, true
		}
	}
	return "", false
}

// fieldKey: `x.f` with x a struct parameter -> ("x_f", Lean type of the field).
func (fc *fnCtx) fieldKey(x *ast.SelectorExpr) (string, string, bool) {
	id, ok := x.X.(*ast.Ident)
	if !ok {
		return "", "", false
	}
	st, ok := fc.structs[id.Name]
	if !ok {
		return "", "", false
	}
	for j := 0; j < st.NumFields(); j++ {
		if st.Field(j).Name() == x.Sel.Name {
			lt, err := leanTypeM(st.Field(j).Type())
			if err != nil {
				if flt, ok := fc.dmxFieldType(st, j); ok { // wp dmmirror: function-valued field = Int selector
					return id.Name + "_" + x.Sel.Name, flt, true
				}
				return "", "", false
			}
			return id.Name + "_" + x.Sel.Name, lt, true
		}
	}
	return "", "", false
}

// usedFieldTypes: the struct-parameter fields a node mentions, with their Lean types
func (fc *fnCtx) usedFieldTypes(nd ast.Node) map[string]string {
	out := map[string]string{}
	ast.Inspect(nd, func(n ast.Node) bool {
		if sel, ok := n.(*ast.SelectorExpr); ok {
			if key, lt, ok := fc.fieldKey(sel); ok {
				out[key] = lt
			}
		}
		return true
	})
	return out
}

var leanKeywords = map[string]bool{"end": true, "from": true, "at": true, "have": true, "show": true, "then": true, "fun": true,
	"do": true, "in": true, "with": true, "match": true, "open": true, "by": true, "where": true, "def": true, "theorem": true,
	"instance": true, "class": true, "structure": true, "namespace": true, "section": true, "variable": true, "universe": true,
	"export": true, "using": true, "deriving": true, "mutual": true, "private": true, "protected": true, "macro": true,
	"syntax": true, "notation": true, "infix": true, "prefix": true, "postfix": true, "local": true, "attribute": true,
	"forall": true, "exists": true, "calc": true, "unless": true, "try": true, "catch": true, "finally": true, "mut": true,
	"nomatch": true, "nofun": true, "abbrev": true, "axiom": true, "example": true, "inductive": true, "opaque": true,
	"extends": true, "partial": true, "unsafe": true, "noncomputable": true, "nonrec": true, "suffices": true, "let": true,
	"Type": true, "Sort": true, "Prop": true, "this": true}

// leanIdent: a Go identifier as a Lean identifier (Lean keywords and the translator's own names are escaped)
func leanIdent(n string) string {
	if leanKeywords[n] {
		return "«" + n + "»"
	}
	if n == "st" || n == "fuel" { // names the translator itself binds
		return n + "_go"
	}
	return n
}

func relPkg(path string) string {
	rel := strings.TrimPrefix(strings.TrimPrefix(path, modPath), "/")
	if rel == "" {
		rel = "."
	}
	return rel
}

// methodCallee: `r.M(args)` where r is a struct parameter and M a method translated earlier into this module.
func (fc *fnCtx) methodCallee(call *ast.CallExpr) (string, methodInfo, bool) {
	sel, ok := call.Fun.(*ast.SelectorExpr)
	if !ok || fc.m == nil {
		return "", methodInfo{}, false
	}
	id, ok := sel.X.(*ast.Ident)
	if !ok {
		return "", methodInfo{}, false
	}
	if _, isStruct := fc.structs[id.Name]; !isStruct {
		return "", methodInfo{}, false
	}
	fn, ok := fc.p.TypesInfo.Uses[sel.Sel].(*types.Func)
	if !ok || fn.Pkg() == nil {
		return "", methodInfo{}, false
	}
	sig, ok := fn.Type().(*types.Signature)
	if !ok || sig.Recv() == nil {
		return "", methodInfo{}, false
	}
	mi, ok := methodCallees[fc.m.module+"|"+relPkg(fn.Pkg().Path())+"."+typeName(sig.Recv().Type())+"."+fn.Name()]
	if !ok || mi.nplain != len(call.Args) {
		return "", methodInfo{}, false
	}
	return id.Name, mi, true
}

// methodCallText: `<lean> [fuel] <receiver fields> <args>`
func (fc *fnCtx) methodCallText(recv string, mi methodInfo, call *ast.CallExpr) (string, error) {
	parts := []string{mi.lean}
	if mi.fuel {
		fc.m.fuelUsed = true
		parts = append(parts, "fuel")
	}
	for _, f := range mi.fields {
		s, err := fc.expr(&ast.SelectorExpr{X: &ast.Ident{Name: recv}, Sel: &ast.Ident{Name: f}})
		if err != nil {
			return "", err
		}
		parts = append(parts, s)
	}
	for _, a := range call.Args {
		var s string
		var err error
		if _, lerr := leanType(fc.p.TypesInfo.TypeOf(a)); lerr != nil {
			s, err = fc.lexpr(a)
		} else {
			s, err = fc.expr(a)
		}
		if err != nil {
			return "", err
		}
		parts = append(parts, s)
	}
	return strings.Join(parts, " "), nil
}

// structValue: the field values of an expression of type *T / T: a struct parameter, or a composite literal
func (fc *fnCtx) structValue(st *types.Struct, r ast.Expr) ([]string, error) {
	if u, ok := r.(*ast.UnaryExpr); ok && u.Op == token.AND {
		r = u.X
	}
	fns, fts, _ := structFields(st)
	switch y := r.(type) {
	case *ast.Ident:
		if _, ok := fc.structs[y.Name]; !ok {
			return nil, fmt.Errorf("struct-valued result %s is not a struct parameter", y.Name)
		}
		var vals []string
		for _, f := range fns {
			v, err := fc.expr(&ast.SelectorExpr{X: &ast.Ident{Name: y.Name}, Sel: &ast.Ident{Name: f}})
			if err != nil {
				return nil, err
			}
			vals = append(vals, v)
		}
		return vals, nil
	case *ast.CompositeLit:
		vals := make([]string, len(fns))
		for i, ft := range fts {
			vals[i] = map[string]string{"Int": "0", "Bool": "false", "List Int": "[]"}[ft]
		}
		for i, el := range y.Elts {
			k := i
			if kv, ok := el.(*ast.KeyValueExpr); ok {
				k = -1
				for j, f := range fns {
					if id, ok := kv.Key.(*ast.Ident); ok && id.Name == f {
						k = j
					}
				}
				el = kv.Value
			}
			if k < 0 || k >= len(fns) {
				return nil, fmt.Errorf("composite literal field")
			}
			var v string
			var err error
			if fts[k] == "List Int" {
				v, err = fc.lexprOrMake(el)
			} else {
				v, err = fc.expr(el)
			}
			if err != nil {
				return nil, err
			}
			vals[k] = v
		}
		return vals, nil
	}
	return nil, fmt.Errorf("struct-valued result %T", r)
}

// lvalueKey: the local an assignment target denotes: a plain local, or a field of a struct parameter.
func (fc *fnCtx) lvalueKey(e ast.Expr) (string, bool) {
	switch x := e.(type) {
	case *ast.ParenExpr:
		return fc.lvalueKey(x.X)
	case *ast.Ident:
		return x.Name, true
	case *ast.SelectorExpr:
		if key, lt, ok := fc.fieldKey(x); ok {
			fc.fieldsUsed[key] = lt
			if _, seen := fc.locals[key]; seen {
				return key, true
			}
		}
	}
	return "", false
}

func (fc *fnCtx) isOutVar(name string) bool {
	for _, o := range fc.m.outVars {
		if o == name {
			return true
		}
	}
	return false
}

// outTuple: the values a return yields after the Go results
func (fc *fnCtx) outNames() []string {
	var ns []string
	for _, o := range fc.m.outVars {
		ns = append(ns, fc.name(o))
	}
	return ns
}

// ---------- statements ----------

func (fc *fnCtx) stateTuple() string {
	if len(fc.m.state) == 0 {
		return "()"
	}
	var ns []string
	for _, s := range fc.m.state {
		ns = append(ns, fc.name(s))
	}
	return "(" + strings.Join(ns, ", ") + ")"
}

func proj(k, m int) string {
	if m == 1 {
		return "st"
	}
	s := "st" + strings.Repeat(".2", k)
	if k < m-1 {
		s += ".1"
	}
	return s
}

func endsControl(body []ast.Stmt) bool {
	if len(body) == 0 {
		return false
	}
	switch x := body[len(body)-1].(type) {
	case *ast.ReturnStmt:
		return true
	case *ast.BranchStmt:
		return x.Label == nil && (x.Tok == token.BREAK || x.Tok == token.CONTINUE)
	}
	return false
}

func (fc *fnCtx) skippableType(t types.Type) bool {
	if t == nil {
		return true
	}
	_, err := leanTypeM(t)
	return err != nil
}

func (fc *fnCtx) mblock(stmts []ast.Stmt, lvl int) (string, error) {
	if len(stmts) == 0 {
		if fc.m.inJoin {
			var ns []string
			for _, v := range fc.m.join {
				ns = append(ns, fc.name(v))
			}
			if len(ns) == 1 {
				return ind(lvl) + ns[0], nil
			}
			return ind(lvl) + "(" + strings.Join(ns, ", ") + ")", nil
		}
		if fc.m.body {
			return ind(lvl) + ".next " + fc.stateTuple(), nil
		}
		if fc.m.void && !fc.m.region {
			// falling off the end of a function without results: the written receiver state is the result
			return ind(lvl) + ".ok (" + strings.Join(fc.outNames(), ", ") + ")", nil
		}
		return "", fmt.Errorf("path without return")
	}
	s := stmts[0]
	rest := stmts[1:]
	cont := func(prefix string) (string, error) {
		r, err := fc.mblock(rest, lvl)
		if err != nil {
			return "", err
		}
		return prefix + r, nil
	}
	if text, handled, err := fc.k03wStmt(s, rest, lvl); handled { // wp k03w (ext_k03w.go; before extStmt, which refuses `n += F(args)`)
		return text, err
	}
	if text, handled, err := fc.extStmt(s, rest, lvl); handled { // ext_k17k20.go
		return text, err
	}
	if text, handled, err := fc.k01decStmt(s, rest, lvl); handled { // wp k01dec (ext_k01dec.go)
		return text, err
	}
	if text, handled, err := fc.k01dec2Stmt(s, rest, lvl); handled { // wp k01dec2 (ext_k01dec2.go)
		return text, err
	}
	if text, handled, err := fc.k11b2Stmt(s, rest, lvl); handled { // wp k11b2 (ext_k11b2.go)
		return text, err
	}
	switch x := s.(type) {
	case *scopeEnd:
		for _, n := range x.names {
			delete(fc.locals, n)
		}
		return fc.mblock(rest, lvl)
	case *ast.EmptyStmt:
		return fc.mblock(rest, lvl)
	case *ast.ReturnStmt:
		if fc.m.region {
			// synthetic return of the region's outputs
		}
		var rs []string
		for ri, r := range x.Results {
			if vals, handled, err := fc.dmxReturnVals(ri, r); handled { // wp dmmirror: flattened []struct result
				if err != nil {
					return "", err
				}
				rs = append(rs, vals...)
				continue
			}
			if vals, handled, err := fc.k01decReturn(x, ri, r); handled { // wp k01dec: object-typed results
				if err != nil {
					return "", err
				}
				rs = append(rs, vals...)
				continue
			}
			if vals, handled, err := fc.k11b2Return(ri, r); handled { // wp k11b2: nil of a [][]byte result
				if err != nil {
					return "", err
				}
				rs = append(rs, vals...)
				continue
			}
			if st := fc.m.structRes[ri]; st != nil {
				vals, err := fc.structValue(st, r)
				if err != nil {
					return "", err
				}
				rs = append(rs, vals...)
				continue
			}
			if ri < len(fc.m.dropRes) && fc.m.dropRes[ri] {
				// object-valued result: not part of the translation; it must be an expression that cannot panic
				switch y := r.(type) {
				case *ast.Ident, *ast.SelectorExpr:
				case *ast.IndexExpr:
					if _, isMap := fc.p.TypesInfo.TypeOf(y.X).Underlying().(*types.Map); !isMap {
						return "", fmt.Errorf("object-valued result is an index expression")
					}
					if _, err := fc.expr(y.Index); err != nil {
						return "", err
					}
				default:
					return "", fmt.Errorf("object-valued result %T", r)
				}
				continue
			}
			if t := fc.p.TypesInfo.TypeOf(r); t != nil && (t.String() == "error" || isErrorType(t)) {
				if id, ok := r.(*ast.Ident); ok && id.Name == "nil" {
					rs = append(rs, "false")
				} else if id, ok := r.(*ast.Ident); ok && fc.m.ltype[id.Name] == "Bool" {
					rs = append(rs, fc.name(id.Name))
				} else {
					rs = append(rs, "true")
				}
				continue
			}
			isList := len(rs) < len(fc.m.resTypes) && fc.m.resTypes[len(rs)] == "List Int"
			if id, ok := r.(*ast.Ident); ok && id.Name == "nil" {
				if isList {
					rs = append(rs, "[]")
				} else {
					rs = append(rs, "false")
				}
				continue
			}
			var e string
			var err error
			if id, ok := r.(*ast.Ident); ok && isListLT(fc.m.ltype[id.Name]) {
				e, err = fc.lexpr(r)
			} else if isList {
				e, err = fc.lexprOrMake(r)
			} else {
				e, err = fc.expr(r)
			}
			if err != nil {
				return "", err
			}
			rs = append(rs, e)
		}
		rs = append(rs, fc.outNames()...)
		v := "(" + strings.Join(rs, ", ") + ")"
		kw := ".ok "
		if fc.m.body {
			kw = ".ret "
		}
		return fc.flush(lvl) + ind(lvl) + kw + v, nil
	case *ast.BranchStmt:
		if x.Label != nil || !fc.m.body {
			return "", fmt.Errorf("unsupported branch statement")
		}
		switch x.Tok {
		case token.CONTINUE:
			return ind(lvl) + ".next " + fc.stateTuple(), nil
		case token.BREAK:
			if fc.m.inSwitch > 0 {
				return "", fmt.Errorf("break inside switch")
			}
			return ind(lvl) + ".brk " + fc.stateTuple(), nil
		}
		return "", fmt.Errorf("unsupported branch statement")
	case *ast.ExprStmt:
		if _, ok := x.X.(*ast.CallExpr); ok && fc.m.region {
			return fc.mblock(rest, lvl)
		}
		if call, ok := x.X.(*ast.CallExpr); ok {
			if text, handled, err := fc.mcallStmt(call, lvl); handled {
				if err != nil {
					return "", err
				}
				return cont(text)
			}
		}
		return "", fmt.Errorf("expression statement")
	case *ast.IncDecStmt:
		key, ok := fc.lvalueKey(x.X)
		if !ok {
			return "", fmt.Errorf("++/-- on non-local")
		}
		if _, ok := fc.locals[key]; !ok {
			return "", fmt.Errorf("free identifier %s", key)
		}
		op := "+"
		if x.Tok == token.DEC {
			op = "-"
		}
		cur := fc.name(key)
		val := fmt.Sprintf("(%s %s 1)", cur, op)
		if n := unsignedBits(fc.p.TypesInfo.TypeOf(x.X)); n > 0 {
			val = fmt.Sprintf("(Gzx.GoM.wrap %d %s)", n, val)
		}
		nn := fc.bump(key)
		return cont(fmt.Sprintf("%slet %s := %s\n", ind(lvl), nn, val))
	case *ast.AssignStmt:
		return fc.massign(x, rest, lvl)
	case *ast.DeclStmt:
		gd, ok := x.Decl.(*ast.GenDecl)
		if !ok || gd.Tok != token.VAR {
			return "", fmt.Errorf("unsupported declaration")
		}
		var sb strings.Builder
		for _, sp := range gd.Specs {
			vs := sp.(*ast.ValueSpec)
			for i, n := range vs.Names {
				t := fc.p.TypesInfo.TypeOf(n)
				if obj := fc.p.TypesInfo.Defs[n]; obj != nil {
					t = obj.Type()
				}
				lt, err := leanTypeM(t)
				if err != nil {
					if fc.m.region {
						continue
					}
					return "", err
				}
				val := "0"
				if i < len(vs.Values) {
					var e string
					if lt == "List Int" {
						e, err = fc.lexprOrMake(vs.Values[i])
					} else {
						e, err = fc.expr(vs.Values[i])
					}
					if err != nil {
						return "", err
					}
					val = e
				} else if lt == "Bool" {
					val = "false"
				} else if lt == "List Int" {
					val = "[]"
				}
				sb.WriteString(fc.flush(lvl))
				fc.declare(n.Name, lt)
				fmt.Fprintf(&sb, "%slet %s : %s := %s\n", ind(lvl), fc.name(n.Name), lt, val)
			}
		}
		return cont(sb.String())
	case *ast.IfStmt:
		saved0 := copyMap(fc.locals)
		prefix := ""
		if x.Init != nil {
			as, ok := x.Init.(*ast.AssignStmt)
			if !ok || as.Tok != token.DEFINE {
				return "", fmt.Errorf("if with unsupported init")
			}
			for _, l := range as.Lhs {
				if id, ok := l.(*ast.Ident); ok && id.Name != "_" {
					if _, seen := fc.locals[id.Name]; seen {
						return "", fmt.Errorf("if init shadows %s", id.Name)
					}
				}
			}
			// translate the init as a statement followed by the if without init
			x2 := *x
			x2.Init = nil
			var initNames []string
			for _, l := range as.Lhs {
				if id, ok := l.(*ast.Ident); ok && id.Name != "_" {
					initNames = append(initNames, id.Name)
				}
			}
			r, err := fc.mblock(append([]ast.Stmt{as, &x2, &scopeEnd{names: initNames}}, rest...), lvl)
			// the init variables go out of scope with the if; `rest` cannot mention them (Go scoping)
			_ = saved0
			return r, err
		}
		cond, err := fc.expr(x.Cond)
		if err != nil {
			return "", err
		}
		prefix += fc.flush(lvl)
		if vars, ok := fc.joinable(x); ok {
			// both branches only assign `vars`: one `let` of an if-expression instead of duplicating `rest`
			saved := copyMap(fc.locals)
			sj, si := fc.m.join, fc.m.inJoin
			fc.m.join, fc.m.inJoin = vars, true
			th, err := fc.mblock(x.Body.List, lvl+2)
			if err != nil {
				return "", err
			}
			fc.locals = copyMap(saved)
			var els []ast.Stmt
			switch el := x.Else.(type) {
			case *ast.BlockStmt:
				els = el.List
			case *ast.IfStmt:
				els = []ast.Stmt{el}
			}
			el, err := fc.mblock(els, lvl+2)
			if err != nil {
				return "", err
			}
			fc.locals = saved
			fc.m.join, fc.m.inJoin = sj, si
			var sb strings.Builder
			sb.WriteString(prefix)
			if len(vars) == 1 {
				nn := fc.bump(vars[0])
				fmt.Fprintf(&sb, "%slet %s :=\n%sif %s then\n%s\n%selse\n%s\n", ind(lvl), nn, ind(lvl+1), cond, th, ind(lvl+1), el)
			} else {
				fc.m.tmp++
				jn := fmt.Sprintf("j%d", fc.m.tmp)
				fmt.Fprintf(&sb, "%slet %s :=\n%sif %s then\n%s\n%selse\n%s\n", ind(lvl), jn, ind(lvl+1), cond, th, ind(lvl+1), el)
				for k, v := range vars {
					pr := jn + strings.Repeat(".2", k)
					if k < len(vars)-1 {
						pr += ".1"
					}
					nn := fc.bump(v)
					fmt.Fprintf(&sb, "%slet %s := %s\n", ind(lvl), nn, pr)
				}
			}
			r, err := fc.mblock(rest, lvl)
			if err != nil {
				return "", err
			}
			return sb.String() + r, nil
		}
		if vars, ok := fc.ctlJoinable(x, rest); ok {
			// tie mode: both branches fall through and something follows — the `if` becomes ONE control value
			// (`.next (vars)` at the end of each branch, `.ret` for an early return, `.panic` for a failed check)
			// followed once by the rest, instead of the rest being duplicated into both branches
			var stypes []string
			for _, n := range vars {
				stypes = append(stypes, fc.m.ltype[n])
			}
			sigma := "Unit"
			if len(stypes) > 0 {
				sigma = strings.Join(stypes, " × ")
			}
			saved := copyMap(fc.locals)
			sBody, sState, sSwitch := fc.m.body, fc.m.state, fc.m.inSwitch
			fc.m.body, fc.m.state, fc.m.inSwitch = true, vars, 0
			th, err := fc.mblock(x.Body.List, lvl+2)
			if err != nil {
				return "", err
			}
			fc.locals = copyMap(saved)
			var el string
			switch e := x.Else.(type) {
			case nil:
				el = ind(lvl+2) + ".next " + fc.stateTuple()
			case *ast.BlockStmt:
				el, err = fc.mblock(e.List, lvl+2)
			case *ast.IfStmt:
				el, err = fc.mblock([]ast.Stmt{e}, lvl+2)
			}
			if err != nil {
				return "", err
			}
			fc.locals = saved
			fc.m.body, fc.m.state, fc.m.inSwitch = sBody, sState, sSwitch
			then := "thenR"
			if fc.m.body {
				then = "thenC"
			}
			var sb strings.Builder
			sb.WriteString(prefix)
			fmt.Fprintf(&sb, "%s((if %s then\n%s\n%selse\n%s : Gzx.GoM.Ctl (%s) (%s))).%s fun st =>\n", ind(lvl), cond, th, ind(lvl+1), el, sigma, fc.m.retType, then)
			for k, n := range vars {
				nn := fc.bump(n)
				fmt.Fprintf(&sb, "%slet %s := %s\n", ind(lvl), nn, proj(k, len(vars)))
			}
			r, err := fc.mblock(rest, lvl)
			if err != nil {
				return "", err
			}
			return sb.String() + r, nil
		}
		saved := copyMap(fc.locals)
		fill := func(body []ast.Stmt) []ast.Stmt {
			if endsControl(body) {
				return append([]ast.Stmt{}, body...)
			}
			return append(fc.withScope(body), rest...)
		}
		th, err := fc.mblock(fill(x.Body.List), lvl+1)
		if err != nil {
			return "", err
		}
		fc.locals = copyMap(saved)
		var elStmts []ast.Stmt
		switch el := x.Else.(type) {
		case nil:
			elStmts = rest
		case *ast.BlockStmt:
			elStmts = fill(el.List)
		case *ast.IfStmt:
			elStmts = append([]ast.Stmt{el}, rest...)
		}
		el, err := fc.mblock(elStmts, lvl+1)
		if err != nil {
			return "", err
		}
		fc.locals = saved
		return fmt.Sprintf("%s%sif %s then\n%s\n%selse\n%s", prefix, ind(lvl), cond, th, ind(lvl), el), nil
	case *ast.SwitchStmt:
		return fc.mswitch(x, rest, lvl)
	case *ast.BlockStmt:
		// a nested block may declare locals that shadow: refuse those, otherwise inline
		for _, st := range x.List {
			if as, ok := st.(*ast.AssignStmt); ok && as.Tok == token.DEFINE {
				for _, l := range as.Lhs {
					if id, ok := l.(*ast.Ident); ok {
						if _, seen := fc.locals[id.Name]; seen {
							return "", fmt.Errorf("nested block shadows %s", id.Name)
						}
					}
				}
			}
		}
		return fc.mblock(append(fc.withScope(x.List), rest...), lvl)
	case *ast.ForStmt:
		return fc.mfor(x, rest, lvl)
	case *ast.RangeStmt:
		return fc.mrange(x, rest, lvl)
	}
	return "", fmt.Errorf("unsupported statement %T at %s", s, fc.p.Fset.Position(s.Pos()))
}

// ctlJoinable (tie mode only): an `if` that is not a pure join, whose branches fall through (no trailing
// return / break / continue), contain no break / continue of an enclosing loop, and which is followed by more
// statements.  Returns the visible locals the branches assign, in declaration order.
func (fc *fnCtx) ctlJoinable(x *ast.IfStmt, rest []ast.Stmt) ([]string, bool) {
	if !fc.m.tie || fc.m.inJoin || x.Init != nil {
		return nil, false
	}
	more := false
	for _, st := range rest {
		if _, ok := st.(*scopeEnd); !ok {
			more = true
		}
	}
	if !more {
		return nil, false
	}
	var stmts []ast.Stmt
	var walk func(i *ast.IfStmt) bool
	walk = func(i *ast.IfStmt) bool {
		if i.Init != nil || endsControl(i.Body.List) {
			return false
		}
		stmts = append(stmts, i.Body.List...)
		switch e := i.Else.(type) {
		case *ast.BlockStmt:
			if endsControl(e.List) {
				return false
			}
			stmts = append(stmts, e.List...)
		case *ast.IfStmt:
			return walk(e)
		}
		return true
	}
	if !walk(x) {
		return nil, false
	}
	bad := false
	for _, st := range stmts {
		ast.Inspect(st, func(n ast.Node) bool {
			switch n.(type) {
			case *ast.ForStmt, *ast.RangeStmt, *ast.FuncLit:
				return false
			case *ast.BranchStmt, *ast.LabeledStmt, *ast.SwitchStmt:
				bad = true
			}
			return !bad
		})
	}
	if bad {
		return nil, false
	}
	assigned, _ := assignedIn(stmts)
	var vars []string
	for _, n := range fc.m.declOrder {
		if assigned[n] {
			if _, vis := fc.locals[n]; vis {
				if fc.isParam(n) && isListLT(fc.m.ltype[n]) && !fc.isOutVar(n) {
					return nil, false
				}
				vars = append(vars, n)
			}
		}
	}
	return vars, true
}

// withScope: the statements of a block followed by a marker that ends the scope of the names it declares.
func (fc *fnCtx) withScope(body []ast.Stmt) []ast.Stmt {
	var names []string
	add := func(id *ast.Ident) {
		if id.Name == "_" {
			return
		}
		if _, seen := fc.locals[id.Name]; !seen {
			names = append(names, id.Name)
		}
	}
	for _, st := range body {
		switch y := st.(type) {
		case *ast.AssignStmt:
			if y.Tok == token.DEFINE {
				for _, l := range y.Lhs {
					if id, ok := l.(*ast.Ident); ok {
						add(id)
					}
				}
			}
		case *ast.DeclStmt:
			if gd, ok := y.Decl.(*ast.GenDecl); ok {
				for _, sp := range gd.Specs {
					if vs, ok := sp.(*ast.ValueSpec); ok {
						for _, n := range vs.Names {
							add(n)
						}
					}
				}
			}
		}
	}
	out := append([]ast.Stmt{}, body...)
	if len(names) > 0 {
		out = append(out, &scopeEnd{names: names})
	}
	return out
}

// joinable: an `if` (without init) whose branches contain no control transfer, no loop, no checked
// operation and no call, and only assign visible Int/Bool locals.  Returns those locals in
// declaration order.
func (fc *fnCtx) joinable(x *ast.IfStmt) ([]string, bool) {
	ok := true
	check := func(n ast.Node) bool {
		switch y := n.(type) {
		case *ast.ReturnStmt, *ast.BranchStmt, *ast.ForStmt, *ast.RangeStmt, *ast.SwitchStmt, *ast.IndexExpr,
			*ast.SliceExpr, *ast.FuncLit, *ast.ExprStmt, *ast.DeclStmt:
			ok = false
		case *ast.CallExpr:
			if tv, isT := fc.p.TypesInfo.Types[y.Fun]; !isT || !tv.IsType() {
				ok = false
			}
		case *ast.BinaryExpr:
			switch y.Op {
			case token.QUO, token.REM, token.SHL, token.SHR:
				if tv := fc.p.TypesInfo.Types[y.Y]; tv.Value == nil || constant.Sign(tv.Value) <= 0 {
					ok = false
				}
			}
		case *ast.AssignStmt:
			switch y.Tok {
			case token.QUO_ASSIGN, token.REM_ASSIGN, token.SHL_ASSIGN, token.SHR_ASSIGN, token.DEFINE:
				ok = false
			}
		case *ast.IfStmt:
			if y.Init != nil {
				ok = false
			}
		}
		return ok
	}
	var stmts []ast.Stmt
	stmts = append(stmts, x.Body.List...)
	ast.Inspect(x.Body, check)
	switch el := x.Else.(type) {
	case *ast.BlockStmt:
		ast.Inspect(el, check)
		stmts = append(stmts, el.List...)
	case *ast.IfStmt:
		ast.Inspect(el, check)
		stmts = append(stmts, el)
	}
	if !ok {
		return nil, false
	}
	assigned, declared := assignedIn(stmts)
	if len(declared) > 0 || len(assigned) == 0 {
		return nil, false
	}
	var vars []string
	for _, n := range fc.m.declOrder {
		if assigned[n] {
			if _, vis := fc.locals[n]; !vis || (fc.m.ltype[n] != "Int" && fc.m.ltype[n] != "Bool") {
				return nil, false
			}
			vars = append(vars, n)
		}
	}
	if len(vars) != len(assigned) {
		return nil, false
	}
	return vars, true
}

func (fc *fnCtx) lexprOrMake(ex ast.Expr) (string, error) {
	if cl, ok := ex.(*ast.CompositeLit); ok {
		if lt, err := leanTypeM(fc.p.TypesInfo.TypeOf(cl)); err != nil || lt != "List Int" {
			return "", fmt.Errorf("unsupported composite literal")
		}
		var es []string
		for _, el := range cl.Elts {
			if _, ok := el.(*ast.KeyValueExpr); ok {
				return "", fmt.Errorf("keyed composite literal")
			}
			e, err := fc.expr(el)
			if err != nil {
				return "", err
			}
			es = append(es, e)
		}
		return "[" + strings.Join(es, ", ") + "]", nil
	}
	if call, ok := ex.(*ast.CallExpr); ok {
		if id, ok := call.Fun.(*ast.Ident); ok {
			// a function translated earlier into this module that returns a slice
			if fn, ok := fc.p.TypesInfo.Uses[id].(*types.Func); ok && fn.Pkg() != nil {
				if _, ok := callees[fc.m.module+"|"+relPkg(fn.Pkg().Path())+"."+fn.Name()]; ok {
					return fc.expr(ex)
				}
			}
		}
		if id, ok := call.Fun.(*ast.Ident); ok && id.Name == "make" && len(call.Args) == 2 {
			if _, isBuiltin := fc.p.TypesInfo.Uses[id].(*types.Builtin); isBuiltin {
				if _, err := leanTypeM(fc.p.TypesInfo.TypeOf(call)); err != nil {
					return "", err
				}
				n, err := fc.expr(call.Args[1])
				if err != nil {
					return "", err
				}
				return fc.bind("Gzx.GoM.mk " + n), nil
			}
		}
	}
	return fc.lexpr(ex)
}

func (fc *fnCtx) massign(x *ast.AssignStmt, rest []ast.Stmt, lvl int) (string, error) {
	if s, handled, err := fc.dmxAssign(x, rest, lvl); handled { // wp dmmirror (ext_dmmirror.go)
		return s, err
	}
	if s, handled, err := fc.k11bAssign(x, rest, lvl); handled { // wp k11b (ext_k11b.go)
		return s, err
	}
	if s, handled, err := fc.k03wAssign(x, rest, lvl); handled { // wp k03w (ext_k03w.go)
		return s, err
	}
	if s, handled, err := fc.k11b2Assign(x, rest, lvl); handled { // wp k11b2 (ext_k11b2.go)
		return s, err
	}
	cont := func(prefix string) (string, error) {
		r, err := fc.mblock(rest, lvl)
		if err != nil {
			return "", err
		}
		return prefix + r, nil
	}
	typeOfLhs := func(l ast.Expr) types.Type {
		if id, ok := l.(*ast.Ident); ok {
			if obj := fc.p.TypesInfo.Defs[id]; obj != nil {
				return obj.Type()
			}
			if obj := fc.p.TypesInfo.Uses[id]; obj != nil {
				return obj.Type()
			}
		}
		return fc.p.TypesInfo.TypeOf(l)
	}
	isBlank := func(l ast.Expr) bool {
		id, ok := l.(*ast.Ident)
		return ok && id.Name == "_"
	}
	if fc.m.region {
		skip := true
		for _, l := range x.Lhs {
			if isBlank(l) {
				continue
			}
			if _, ok := l.(*ast.Ident); !ok || !fc.skippableType(typeOfLhs(l)) {
				skip = false
			}
		}
		if skip {
			return fc.mblock(rest, lvl)
		}
	}
	var sb strings.Builder
	// a, b := f(x)
	if len(x.Lhs) > 1 && len(x.Rhs) == 1 {
		if x.Tok != token.DEFINE && x.Tok != token.ASSIGN {
			return "", fmt.Errorf("multi-value assignment")
		}
		t, err := fc.expr(x.Rhs[0])
		if err != nil {
			return "", err
		}
		sb.WriteString(fc.flush(lvl))
		for i, l := range x.Lhs {
			if isBlank(l) {
				continue
			}
			id, ok := l.(*ast.Ident)
			if !ok {
				return "", fmt.Errorf("assignment to non-local")
			}
			lt, err := leanTypeM(typeOfLhs(l))
			if err != nil {
				if isErrorType(typeOfLhs(l)) {
					lt = "Bool"
				} else {
					return "", err
				}
			}
			pr := t + strings.Repeat(".2", i)
			if i < len(x.Lhs)-1 {
				pr += ".1"
			}
			fc.declare(id.Name, lt)
			fmt.Fprintf(&sb, "%slet %s := %s\n", ind(lvl), fc.name(id.Name), pr)
		}
		return cont(sb.String())
	}
	if len(x.Lhs) != len(x.Rhs) {
		return "", fmt.Errorf("multi-value assignment")
	}
	// x = F(args): a struct parameter is re-pointed at a freshly constructed object (F translated earlier, `return &T{...}`)
	if len(x.Lhs) == 1 && x.Tok == token.ASSIGN {
		if id, ok := x.Lhs[0].(*ast.Ident); ok {
			if st, isS := fc.structs[id.Name]; isS {
				call, ok := x.Rhs[0].(*ast.CallExpr)
				if !ok {
					return "", fmt.Errorf("assignment to struct parameter %s", id.Name)
				}
				fid, ok := call.Fun.(*ast.Ident)
				if !ok {
					return "", fmt.Errorf("assignment to struct parameter %s", id.Name)
				}
				fn, ok := fc.p.TypesInfo.Uses[fid].(*types.Func)
				if !ok || fn.Pkg() == nil {
					return "", fmt.Errorf("assignment to struct parameter %s", id.Name)
				}
				ci, ok := ctorCallees[fc.m.module+"|"+relPkg(fn.Pkg().Path())+"."+fn.Name()]
				if !ok || ci.nplain != len(call.Args) {
					return "", fmt.Errorf("%s is not a translated constructor", fn.Name())
				}
				parts := []string{ci.lean}
				for _, a := range call.Args {
					s, err := fc.expr(a)
					if err != nil {
						return "", err
					}
					parts = append(parts, s)
				}
				t := fc.bind(strings.Join(parts, " "))
				sb.WriteString(fc.flush(lvl))
				fns, fts, _ := structFields(st)
				for k, f := range fns {
					key := id.Name + "_" + f
					pr := t
					if len(fns) > 1 {
						pr = t + strings.Repeat(".2", k)
						if k < len(fns)-1 {
							pr += ".1"
						}
					}
					fc.declare(key, fts[k])
					fc.fieldsUsed[key] = fts[k]
					fmt.Fprintf(&sb, "%slet %s := %s\n", ind(lvl), fc.name(key), pr)
				}
				if _, seen := fc.locals[id.Name+"_isNil"]; seen {
					fc.declare(id.Name+"_isNil", "Bool")
					fmt.Fprintf(&sb, "%slet %s := false\n", ind(lvl), fc.name(id.Name+"_isNil"))
				}
				return cont(sb.String())
			}
		}
	}
	// evaluate all index operands and right-hand sides first (Go semantics of parallel assignment), then
	// assign left to right (two element writes to the same slice must see each other)
	type tgt struct {
		key  string
		ix   string // index expression for an element write, "" otherwise
		val  string
		lt   string
		skip bool
	}
	var tg []tgt
	for i, l := range x.Lhs {
		r := x.Rhs[i]
		if isBlank(l) {
			if _, err := fc.expr(r); err != nil {
				return "", err
			}
			tg = append(tg, tgt{skip: true})
			continue
		}
		if pe, ok := l.(*ast.ParenExpr); ok {
			l = pe.X
		}
		switch lx := l.(type) {
		case *ast.Ident, *ast.SelectorExpr:
			key, ok := fc.lvalueKey(l)
			if !ok {
				return "", fmt.Errorf("assignment to non-local")
			}
			lt, err := leanTypeM(typeOfLhs(l))
			if err != nil {
				if isErrorType(typeOfLhs(l)) {
					lt = "Bool"
				} else {
					return "", err
				}
			}
			var val string
			if isListLT(lt) {
				if x.Tok != token.DEFINE && x.Tok != token.ASSIGN {
					return "", fmt.Errorf("operator assignment on a slice")
				}
				if _, isIdent := l.(*ast.Ident); isIdent && fc.isParam(key) && !fc.isOutVar(key) {
					return "", fmt.Errorf("assignment to slice parameter %s", key)
				}
				val, err = fc.lexprOrMake(r)
			} else {
				val, err = fc.expr(r)
			}
			if err != nil {
				return "", err
			}
			if x.Tok != token.DEFINE && x.Tok != token.ASSIGN {
				if _, ok := fc.locals[key]; !ok {
					return "", fmt.Errorf("free identifier %s", key)
				}
				val, err = fc.opAssign(x.Tok, fc.name(key), val, typeOfLhs(l), r)
				if err != nil {
					return "", err
				}
			}
			tg = append(tg, tgt{key: key, val: val, lt: lt})
		case *ast.IndexExpr:
			key, ok := fc.lvalueKey(lx.X)
			if !ok {
				return "", fmt.Errorf("assignment to non-local")
			}
			if _, ok := fc.locals[key]; !ok || !isListLT(fc.m.ltype[key]) {
				return "", fmt.Errorf("element assignment to non-local slice %s", key)
			}
			if fc.isParam(key) && !fc.isOutVar(key) {
				return "", fmt.Errorf("element assignment to parameter %s (visible to the caller)", key)
			}
			i, err := fc.expr(lx.Index)
			if err != nil {
				return "", err
			}
			val, err := fc.expr(r)
			if err != nil {
				return "", err
			}
			val = fc.k11bElemVal(lx, val) // wp k11b (ext_k11b.go): a []bool element is stored as 0 / 1
			if x.Tok != token.ASSIGN {
				cur := fc.bind(fmt.Sprintf("%s %s %s", k19Idx(fc.m.ltype[key]), fc.name(key), i))
				val, err = fc.opAssign(x.Tok, cur, val, fc.p.TypesInfo.TypeOf(lx), r)
				if err != nil {
					return "", err
				}
			}
			tg = append(tg, tgt{key: key, ix: i, val: val, lt: fc.m.ltype[key]})
		default:
			return "", fmt.Errorf("assignment to non-local")
		}
	}
	sb.WriteString(fc.flush(lvl))
	for _, t := range tg {
		if t.skip {
			continue
		}
		val := t.val
		if t.ix != "" {
			val = fc.bind(fmt.Sprintf("%s %s %s %s", k19SetIdx(t.lt), fc.name(t.key), t.ix, t.val))
			sb.WriteString(fc.flush(lvl))
		}
		fc.declare(t.key, t.lt)
		fmt.Fprintf(&sb, "%slet %s := %s\n", ind(lvl), fc.name(t.key), val)
	}
	return cont(sb.String())
}

func (fc *fnCtx) isParam(name string) bool {
	for _, p := range fc.paramNames {
		if p == name {
			return true
		}
	}
	return false
}

func (fc *fnCtx) opAssign(tok token.Token, cur, val string, t types.Type, rhs ast.Expr) (string, error) {
	op := strings.TrimSuffix(tok.String(), "=")
	rtv := fc.p.TypesInfo.Types[rhs]
	rconst := rtv.Value != nil && rtv.Value.Kind() == constant.Int
	var r string
	var err error
	switch op {
	case "/", "%":
		if rconst && constant.Sign(rtv.Value) != 0 {
			r, err = binop(op, cur, val)
		} else if op == "/" {
			r = fc.bind(fmt.Sprintf("Gzx.GoM.div %s %s", cur, val))
		} else {
			r = fc.bind(fmt.Sprintf("Gzx.GoM.mod %s %s", cur, val))
		}
	case "<<", ">>":
		if (rconst && constant.Sign(rtv.Value) >= 0) || unsignedBits(rtv.Type) > 0 {
			r, err = binop(op, cur, val)
		} else if op == "<<" {
			r = fc.bind(fmt.Sprintf("Gzx.GoM.shl %s %s", cur, val))
		} else {
			r = fc.bind(fmt.Sprintf("Gzx.GoM.shr %s %s", cur, val))
		}
	case "&^":
		r = fmt.Sprintf("(Gzx.GoVal.iand %s (Gzx.GoVal.inot %s))", cur, val)
	default:
		r, err = binop(op, cur, val)
	}
	if err != nil {
		return "", err
	}
	if n := unsignedBits(t); n > 0 && op != "/" && op != "%" && op != ">>" && op != "&" && op != "|" && op != "^" && op != "&^" {
		r = fmt.Sprintf("(Gzx.GoM.wrap %d %s)", n, r)
	}
	return r, nil
}

func (fc *fnCtx) mswitch(x *ast.SwitchStmt, rest []ast.Stmt, lvl int) (string, error) {
	if x.Init != nil {
		return "", fmt.Errorf("switch with init")
	}
	tag := ""
	if x.Tag != nil {
		t, err := fc.expr(x.Tag)
		if err != nil {
			return "", err
		}
		tag = t
	}
	prefix := fc.flush(lvl)
	type arm struct {
		cond string
		body []ast.Stmt
	}
	var arms []arm
	var deflt []ast.Stmt
	hasDefault := false
	for _, cc := range x.Body.List {
		c := cc.(*ast.CaseClause)
		for _, st := range c.Body {
			if br, ok := st.(*ast.BranchStmt); ok && br.Tok == token.FALLTHROUGH {
				return "", fmt.Errorf("fallthrough")
			}
		}
		body := c.Body
		if n := len(body); n > 0 {
			if br, ok := body[n-1].(*ast.BranchStmt); ok && br.Tok == token.BREAK && br.Label == nil {
				body = body[:n-1]
			}
		}
		if c.List == nil {
			deflt = body
			hasDefault = true
			continue
		}
		var cs []string
		for _, ce := range c.List {
			e, err := fc.expr(ce)
			if err != nil {
				return "", err
			}
			if len(fc.m.pre) > 0 {
				return "", fmt.Errorf("checked operation in a case expression")
			}
			if tag != "" {
				cs = append(cs, fmt.Sprintf("(%s == %s)", tag, e))
			} else {
				cs = append(cs, e)
			}
		}
		arms = append(arms, arm{strings.Join(cs, " || "), body})
	}
	fill := func(body []ast.Stmt) []ast.Stmt {
		if endsControl(body) {
			if br, ok := body[len(body)-1].(*ast.BranchStmt); ok && br.Tok == token.BREAK {
				return nil // unreachable: trailing break was stripped
			}
			return append([]ast.Stmt{}, body...)
		}
		return append(fc.withScope(body), rest...)
	}
	// a `break` inside an arm (not trailing) would leave the switch, not the loop: refuse
	for _, a := range append(arms, arm{"", deflt}) {
		bad := false
		for _, st := range a.body {
			ast.Inspect(st, func(n ast.Node) bool {
				switch y := n.(type) {
				case *ast.ForStmt, *ast.RangeStmt, *ast.SwitchStmt, *ast.FuncLit:
					return false
				case *ast.BranchStmt:
					if y.Tok == token.BREAK {
						bad = true
					}
				}
				return true
			})
		}
		if bad {
			return "", fmt.Errorf("break inside switch")
		}
	}
	saved := copyMap(fc.locals)
	var sb strings.Builder
	sb.WriteString(prefix)
	for i, a := range arms {
		fc.locals = copyMap(saved)
		b, err := fc.mblock(fill(a.body), lvl+1)
		if err != nil {
			return "", err
		}
		kw := "if"
		if i > 0 {
			kw = "else if"
		}
		fmt.Fprintf(&sb, "%s%s %s then\n%s\n", ind(lvl), kw, a.cond, b)
	}
	fc.locals = copyMap(saved)
	var dbody []ast.Stmt
	if hasDefault {
		dbody = fill(deflt)
	} else {
		dbody = rest
	}
	d, err := fc.mblock(dbody, lvl+1)
	if err != nil {
		return "", err
	}
	fc.locals = saved
	if len(arms) == 0 {
		return prefix + d, nil
	}
	fmt.Fprintf(&sb, "%selse\n%s", ind(lvl), d)
	return sb.String(), nil
}

// ---------- loops ----------

// assignedIn returns the names assigned (=, op=, ++, element writes, copy, receiver fields written by a called
// method) and the names declared (:=, var, range keys) inside a statement list.  A field `x.f` of a struct
// parameter of the function being translated is the name "x_f".
func assignedIn(stmts []ast.Stmt) (assigned, declared map[string]bool) {
	assigned, declared, _ = assignedIn3(stmts)
	return
}

// lvalName: the local (or struct-parameter field) an lvalue expression is rooted at; viaElem: reached through an
// index / slice expression (the variable itself keeps its value, only elements change).
func lvalName(e ast.Expr) (name string, viaElem bool) {
	for {
		switch x := e.(type) {
		case *ast.ParenExpr:
			e = x.X
		case *ast.IndexExpr:
			e, viaElem = x.X, true
		case *ast.SliceExpr:
			e, viaElem = x.X, true
		case *ast.Ident:
			return x.Name, viaElem
		case *ast.SelectorExpr:
			if curFC != nil {
				if key, _, ok := curFC.fieldKey(x); ok {
					return key, viaElem
				}
			}
			return "", viaElem
		default:
			return "", viaElem
		}
	}
}

// assignedIn3 additionally returns the names assigned as a whole (not only through their elements).
func assignedIn3(stmts []ast.Stmt) (assigned, declared, whole map[string]bool) {
	assigned, declared, whole = map[string]bool{}, map[string]bool{}, map[string]bool{}
	for _, st := range stmts {
		if _, ok := st.(*scopeEnd); ok {
			continue
		}
		ast.Inspect(st, func(n ast.Node) bool {
			switch x := n.(type) {
			case *ast.FuncLit:
				return false
			case *ast.AssignStmt:
				for _, l := range x.Lhs {
					if id, ok := l.(*ast.Ident); ok && curFC != nil && x.Tok == token.ASSIGN {
						if st, isS := curFC.structs[id.Name]; isS {
							// the struct parameter is re-pointed: all its fields change
							for j := 0; j < st.NumFields(); j++ {
								assigned[id.Name+"_"+st.Field(j).Name()] = true
								whole[id.Name+"_"+st.Field(j).Name()] = true
							}
							assigned[id.Name+"_isNil"] = true
							whole[id.Name+"_isNil"] = true
							continue
						}
					}
					if name, viaElem := lvalName(l); name != "" && name != "_" {
						if x.Tok == token.DEFINE {
							if _, isIdent := l.(*ast.Ident); isIdent {
								declared[name] = true
								continue
							}
						}
						assigned[name] = true
						if !viaElem {
							whole[name] = true
						}
					}
				}
			case *ast.IncDecStmt:
				if name, viaElem := lvalName(x.X); name != "" {
					assigned[name] = true
					if !viaElem {
						whole[name] = true
					}
				}
			case *ast.ValueSpec:
				for _, nm := range x.Names {
					declared[nm.Name] = true
				}
			case *ast.RangeStmt:
				for _, e := range []ast.Expr{x.Key, x.Value} {
					if id, ok := e.(*ast.Ident); ok && id.Name != "_" {
						if x.Tok == token.DEFINE {
							declared[id.Name] = true
						} else {
							assigned[id.Name] = true
							whole[id.Name] = true
						}
					}
				}
			case *ast.CallExpr:
				extAssignedByCall(x, assigned, whole) // ext_k17k20.go
				k01decAssignedByCall(x, assigned, whole) // wp k01dec
				k11b2AssignedByCall(x, assigned, whole) // wp k11b2 (ext_k11b2.go): intSet.add
				if curFC != nil {
					if recv, mi, ok := curFC.methodCallee(x); ok {
						for _, f := range mi.outs {
							assigned[recv+"_"+f] = true
							whole[recv+"_"+f] = true
						}
					}
					if id, ok := x.Fun.(*ast.Ident); ok && id.Name == "copy" && len(x.Args) == 2 {
						if _, isBuiltin := curFC.p.TypesInfo.Uses[id].(*types.Builtin); isBuiltin {
							if name, _ := lvalName(x.Args[0]); name != "" {
								assigned[name] = true
							}
						}
					}
				}
			}
			return true
		})
	}
	dmxAssigned(assigned, whole) // wp dmmirror
	return
}

func mentions(e ast.Node, names map[string]bool) bool {
	found := false
	ast.Inspect(e, func(n ast.Node) bool {
		if id, ok := n.(*ast.Ident); ok && names[id.Name] {
			found = true
		}
		if sel, ok := n.(*ast.SelectorExpr); ok && curFC != nil {
			if key, _, ok := curFC.fieldKey(sel); ok && names[key] {
				found = true
			}
		}
		return !found
	})
	return found
}

// varies: like mentions, but `len(x)` of a slice whose elements (only) are assigned does not vary.
func varies(e ast.Node, assigned, whole map[string]bool) bool {
	found := false
	ast.Inspect(e, func(n ast.Node) bool {
		if call, ok := n.(*ast.CallExpr); ok && len(call.Args) == 1 {
			if id, ok := call.Fun.(*ast.Ident); ok && id.Name == "len" {
				if name, viaElem := lvalName(call.Args[0]); name != "" && !viaElem && !whole[name] {
					return false
				}
			}
		}
		if id, ok := n.(*ast.Ident); ok && assigned[id.Name] {
			found = true
		}
		if sel, ok := n.(*ast.SelectorExpr); ok && curFC != nil {
			if key, _, ok := curFC.fieldKey(sel); ok && assigned[key] {
				found = true
			}
		}
		return !found
	})
	return found
}

// usedNames: identifiers and struct-parameter fields ("x_f") mentioned in the nodes.
func (fc *fnCtx) usedNames(nodes []ast.Node) map[string]bool {
	used := map[string]bool{}
	for _, nd := range nodes {
		ast.Inspect(nd, func(n ast.Node) bool {
			switch x := n.(type) {
			case *ast.Ident:
				used[x.Name] = true
			case *ast.SelectorExpr:
				if key, lt, ok := fc.fieldKey(x); ok {
					used[key] = true
					fc.fieldsUsed[key] = lt
				}
			case *ast.CallExpr:
				fc.extUsedByCall(x, used) // ext_k17k20.go
				if recv, mi, ok := fc.methodCallee(x); ok {
					for _, f := range mi.fields {
						used[recv+"_"+f] = true
					}
				}
			}
			return true
		})
	}
	fc.dmxUsed(nodes, used) // wp dmmirror
	fc.k11b2Used(nodes, used) // wp k11b2 (ext_k11b2.go): out variables of a returning loop body
	return used
}

// loopCore emits the body definition and the loop call.
//
//	ivar: Go name of the loop variable ("" if none is visible in the body)
//	header(lvl): lets placed at the start of the body (e.g. the range value)
func (fc *fnCtx) loopCore(body *ast.BlockStmt, extra []ast.Node, ivar string, header func() (string, error),
	d string, trip string, i0 string, rest []ast.Stmt, lvl int) (string, error) {
	assigned, declared := assignedIn(body.List)
	if ivar != "" && assigned[ivar] {
		return "", fmt.Errorf("loop body assigns the loop variable %s", ivar)
	}
	for n := range declared {
		if _, seen := fc.locals[n]; seen || n == ivar {
			return "", fmt.Errorf("loop body redeclares %s", n)
		}
	}
	var state []string
	for _, n := range fc.m.declOrder {
		if assigned[n] {
			if _, seen := fc.locals[n]; seen {
				state = append(state, n)
			}
		}
	}
	for n := range assigned {
		if _, seen := fc.locals[n]; !seen && !declared[n] {
			return "", fmt.Errorf("loop body assigns free identifier %s", n)
		}
	}
	state = fc.k03wOrderState(state) // wp k03w: state tuple ordered by type, then declaration (reordering declarations keeps it)
	for _, n := range state {
		if fc.isParam(n) && isListLT(fc.m.ltype[n]) && !fc.isOutVar(n) {
			return "", fmt.Errorf("loop body writes elements of parameter %s", n)
		}
	}
	stateSet := map[string]bool{}
	var stypes []string
	for _, n := range state {
		stateSet[n] = true
		stypes = append(stypes, fc.m.ltype[n])
	}
	sigma := "Unit"
	if len(stypes) > 0 {
		sigma = strings.Join(stypes, " × ")
	}
	// free variables of the body: visible names it mentions, not state, not the loop variable
	used := fc.usedNames(append([]ast.Node{body}, extra...))
	var free []string
	for _, n := range fc.m.declOrder {
		if _, vis := fc.locals[n]; vis && used[n] && !stateSet[n] && n != ivar {
			free = append(free, n)
		}
	}
	fc.m.nloops++
	bname := fmt.Sprintf("%s_body%d", fc.m.lean, fc.m.nloops)
	var bparams, bargs []string
	for _, n := range free {
		bparams = append(bparams, fmt.Sprintf("(%s : %s)", fc.name(n), fc.m.ltype[n]))
		bargs = append(bargs, fc.name(n))
	}
	// initial state: current values
	st0 := "()"
	if len(state) > 0 {
		var vs []string
		for _, n := range state {
			vs = append(vs, fc.name(n))
		}
		st0 = "(" + strings.Join(vs, ", ") + ")"
	}
	// ---- body definition ----
	savedLocals := copyMap(fc.locals)
	savedBody, savedState, savedSwitch, savedPre := fc.m.body, fc.m.state, fc.m.inSwitch, fc.m.pre
	savedFuel, savedJoin, savedInJoin := fc.m.fuelUsed, fc.m.join, fc.m.inJoin
	fc.m.body, fc.m.state, fc.m.inSwitch, fc.m.pre = true, state, 0, nil
	fc.m.fuelUsed, fc.m.join, fc.m.inJoin = false, nil, false
	var bb strings.Builder
	iname := "i"
	if ivar != "" {
		fc.declare(ivar, "Int")
		iname = fc.name(ivar)
	}
	for k, n := range state {
		nn := fc.bump(n)
		fmt.Fprintf(&bb, "  let %s := %s\n", nn, proj(k, len(state)))
	}
	if header != nil {
		h, err := header()
		if err != nil {
			return "", err
		}
		bb.WriteString(h)
	}
	btext, err := fc.mblock(body.List, 1)
	if err != nil {
		return "", err
	}
	fc.locals = savedLocals
	fc.m.body, fc.m.state, fc.m.inSwitch, fc.m.pre = savedBody, savedState, savedSwitch, savedPre
	innerFuel := fc.m.fuelUsed
	fc.m.fuelUsed, fc.m.join, fc.m.inJoin = savedFuel || innerFuel, savedJoin, savedInJoin
	if innerFuel {
		bparams = append([]string{"(fuel : Nat)"}, bparams...)
		bargs = append([]string{"fuel"}, bargs...)
	}
	fc.m.aux = append(fc.m.aux, fmt.Sprintf("/-- body of loop %d of %s (state: %s) -/\ndef %s %s (%s : Int) (st : %s) : Gzx.GoM.Ctl (%s) (%s) :=\n%s%s\n",
		fc.m.nloops, fc.m.lean, strings.Join(state, ", "), bname, strings.Join(bparams, " "), iname, sigma, sigma, fc.m.retType, bb.String(), btext))
	// ---- loop call and continuation ----
	then := "thenR"
	if fc.m.body {
		then = "thenC"
	}
	var sb strings.Builder
	sb.WriteString(fc.flush(lvl))
	call := bname
	if len(bargs) > 0 {
		call += " " + strings.Join(bargs, " ")
	}
	fmt.Fprintf(&sb, "%s(Gzx.GoM.loop (%s) %s %s %s %s).%s fun st =>\n", ind(lvl), call, d, trip, i0, st0, then)
	for k, n := range state {
		nn := fc.bump(n)
		fmt.Fprintf(&sb, "%slet %s := %s\n", ind(lvl), nn, proj(k, len(state)))
	}
	r, err := fc.mblock(rest, lvl)
	if err != nil {
		return "", err
	}
	return sb.String() + r, nil
}

// mfor: a counted loop if the header has that shape, otherwise a `while` loop with fuel.
func (fc *fnCtx) mfor(x *ast.ForStmt, rest []ast.Stmt, lvl int) (string, error) {
	if x.Init == nil && x.Post == nil {
		return fc.mwhile(x.Cond, x.Body.List, rest, lvl)
	}
	pre0, tmp0 := len(fc.m.pre), fc.m.tmp
	text, err := fc.mforCounted(x, rest, lvl)
	if err == nil {
		return text, nil
	}
	if _, isHeader := err.(notCounted); !isHeader {
		return "", err
	}
	fc.m.pre, fc.m.tmp = fc.m.pre[:pre0], tmp0
	// `init; for cond { body; post }` — sound when the body has no `continue` of this loop
	hasContinue := false
	for _, st := range x.Body.List {
		ast.Inspect(st, func(n ast.Node) bool {
			switch y := n.(type) {
			case *ast.ForStmt, *ast.RangeStmt, *ast.FuncLit:
				return false
			case *ast.BranchStmt:
				if y.Tok == token.CONTINUE {
					hasContinue = true
				}
			}
			return true
		})
	}
	if hasContinue && x.Post != nil {
		return "", fmt.Errorf("%v; and the body has a continue", err)
	}
	var stmts []ast.Stmt
	var initNames []string
	if x.Init != nil {
		as, ok := x.Init.(*ast.AssignStmt)
		if !ok || as.Tok != token.DEFINE {
			return "", err
		}
		for _, l := range as.Lhs {
			id, ok := l.(*ast.Ident)
			if !ok {
				return "", err
			}
			if _, seen := fc.locals[id.Name]; seen {
				return "", fmt.Errorf("loop variable shadows %s", id.Name)
			}
			initNames = append(initNames, id.Name)
		}
		stmts = append(stmts, as)
	}
	body := append([]ast.Stmt{}, x.Body.List...)
	if x.Post != nil {
		body = append(body, x.Post)
	}
	stmts = append(stmts, &ast.ForStmt{For: x.For, Cond: x.Cond, Body: &ast.BlockStmt{Lbrace: x.Body.Lbrace, List: body, Rbrace: x.Body.Rbrace}})
	if len(initNames) > 0 {
		stmts = append(stmts, &scopeEnd{names: initNames})
	}
	return fc.mblock(append(stmts, rest...), lvl)
}

// notCounted: the loop header is not one of the counted shapes
type notCounted struct{ why string }

func (e notCounted) Error() string { return e.why }

func (fc *fnCtx) mforCounted(x *ast.ForStmt, rest []ast.Stmt, lvl int) (string, error) {
	text, err := fc.mforCounted0(x, rest, lvl)
	if err != nil {
		m := err.Error()
		if strings.HasPrefix(m, "loop is not counted") || strings.HasPrefix(m, "loop step") || strings.HasPrefix(m, "loop bound is not invariant") ||
			strings.HasPrefix(m, "checked operation in the loop bound") || strings.HasPrefix(m, "loop variable is not a signed integer") ||
			strings.HasPrefix(m, "loop body assigns the loop variable") {
			return "", notCounted{m}
		}
	}
	return text, err
}

func (fc *fnCtx) mforCounted0(x *ast.ForStmt, rest []ast.Stmt, lvl int) (string, error) {
	init, ok := x.Init.(*ast.AssignStmt)
	if !ok || init.Tok != token.DEFINE || len(init.Lhs) != 1 || len(init.Rhs) != 1 {
		return "", fmt.Errorf("loop is not counted (init)")
	}
	iv, ok := init.Lhs[0].(*ast.Ident)
	if !ok {
		return "", fmt.Errorf("loop is not counted (init)")
	}
	if _, seen := fc.locals[iv.Name]; seen {
		return "", fmt.Errorf("loop variable shadows %s", iv.Name)
	}
	if lt, err := leanType(fc.p.TypesInfo.Defs[iv].Type()); err != nil || lt != "Int" || unsignedBits(fc.p.TypesInfo.Defs[iv].Type()) > 0 {
		return "", fmt.Errorf("loop variable is not a signed integer")
	}
	// post
	step := int64(0)
	switch p := x.Post.(type) {
	case *ast.IncDecStmt:
		if id, ok := p.X.(*ast.Ident); !ok || id.Name != iv.Name {
			return "", fmt.Errorf("loop is not counted (post)")
		}
		step = 1
		if p.Tok == token.DEC {
			step = -1
		}
	case *ast.AssignStmt:
		if len(p.Lhs) != 1 || len(p.Rhs) != 1 || (p.Tok != token.ADD_ASSIGN && p.Tok != token.SUB_ASSIGN) {
			return "", fmt.Errorf("loop is not counted (post)")
		}
		if id, ok := p.Lhs[0].(*ast.Ident); !ok || id.Name != iv.Name {
			return "", fmt.Errorf("loop is not counted (post)")
		}
		tv := fc.p.TypesInfo.Types[p.Rhs[0]]
		if tv.Value == nil || tv.Value.Kind() != constant.Int {
			return "", fmt.Errorf("loop step is not constant")
		}
		k, exact := constant.Int64Val(tv.Value)
		if !exact || k <= 0 || k > 1<<20 {
			return "", fmt.Errorf("loop step out of range")
		}
		step = k
		if p.Tok == token.SUB_ASSIGN {
			step = -k
		}
	default:
		return "", fmt.Errorf("loop is not counted (post)")
	}
	// cond: i OP bound  or  bound OP i
	c, ok := x.Cond.(*ast.BinaryExpr)
	if !ok {
		return "", fmt.Errorf("loop is not counted (cond)")
	}
	op := c.Op
	var boundE ast.Expr
	if id, ok := c.X.(*ast.Ident); ok && id.Name == iv.Name {
		boundE = c.Y
	} else if id, ok := c.Y.(*ast.Ident); ok && id.Name == iv.Name {
		boundE = c.X
		switch op {
		case token.LSS:
			op = token.GTR
		case token.LEQ:
			op = token.GEQ
		case token.GTR:
			op = token.LSS
		case token.GEQ:
			op = token.LEQ
		}
	} else {
		return "", fmt.Errorf("loop is not counted (cond)")
	}
	assigned, _, whole := assignedIn3(x.Body.List)
	assigned[iv.Name] = true
	if varies(boundE, assigned, whole) {
		return "", fmt.Errorf("loop bound is not invariant")
	}
	i0, err := fc.expr(init.Rhs[0])
	if err != nil {
		return "", err
	}
	n0 := len(fc.m.pre)
	bound, err := fc.expr(boundE)
	if err != nil {
		return "", err
	}
	if len(fc.m.pre) != n0 {
		return "", fmt.Errorf("checked operation in the loop bound")
	}
	fold := func(e string, delta int64) string {
		var v int64
		if _, err := fmt.Sscanf(e, "%d", &v); err == nil && fmt.Sprintf("%d", v) == e {
			if v+delta < 0 {
				return fmt.Sprintf("(%d)", v+delta)
			}
			return fmt.Sprintf("%d", v+delta)
		}
		if delta > 0 {
			return fmt.Sprintf("(%s + %d)", e, delta)
		}
		return fmt.Sprintf("(%s - %d)", e, -delta)
	}
	var trip string
	k := step
	if k < 0 {
		k = -k
	}
	switch {
	case op == token.LSS && step > 0:
		trip = fmt.Sprintf("(Gzx.GoM.tripUp %s %s %d)", i0, bound, k)
	case op == token.LEQ && step > 0:
		trip = fmt.Sprintf("(Gzx.GoM.tripUp %s %s %d)", i0, fold(bound, 1), k)
	case op == token.GTR && step < 0:
		trip = fmt.Sprintf("(Gzx.GoM.tripDown %s %s %d)", i0, bound, k)
	case op == token.GEQ && step < 0:
		trip = fmt.Sprintf("(Gzx.GoM.tripDown %s %s %d)", i0, fold(bound, -1), k)
	default:
		return "", fmt.Errorf("loop is not counted (direction)")
	}
	d := fmt.Sprintf("%d", step)
	if step < 0 {
		d = fmt.Sprintf("(%d)", step)
	}
	return fc.loopCore(x.Body, nil, iv.Name, nil, d, trip, i0, rest, lvl)
}

// splitAnd: the conjuncts of a condition, left to right
func splitAnd(e ast.Expr) []ast.Expr {
	switch x := e.(type) {
	case *ast.ParenExpr:
		return splitAnd(x.X)
	case *ast.BinaryExpr:
		if x.Op == token.LAND {
			return append(splitAnd(x.X), splitAnd(x.Y)...)
		}
	}
	return []ast.Expr{e}
}

// mwhile: `for cond { body }`.  The loop is `Gzx.GoM.whileLoop body fuel st₀`: the body definition tests the
// condition (conjunct by conjunct, so that a checked read on the right of `&&` is only made when the left holds),
// yields `.brk` when it fails, otherwise runs the statements and yields `.next`.  Running out of fuel is
// `.panic .fuel`; the definition takes `(fuel : Nat)` as its first parameter.
func (fc *fnCtx) mwhile(cond ast.Expr, body []ast.Stmt, rest []ast.Stmt, lvl int) (string, error) {
	needTie(fc.m.module)
	assigned, declared := assignedIn(body)
	for n := range declared {
		if _, seen := fc.locals[n]; seen {
			return "", fmt.Errorf("loop body redeclares %s", n)
		}
	}
	var state []string
	for _, n := range fc.m.declOrder {
		if assigned[n] {
			if _, seen := fc.locals[n]; seen {
				state = append(state, n)
			}
		}
	}
	for n := range assigned {
		if _, seen := fc.locals[n]; !seen && !declared[n] {
			return "", fmt.Errorf("loop body assigns free identifier %s", n)
		}
	}
	stateSet := map[string]bool{}
	var stypes []string
	for _, n := range state {
		if fc.isParam(n) && isListLT(fc.m.ltype[n]) && !fc.isOutVar(n) {
			return "", fmt.Errorf("loop body writes elements of parameter %s", n)
		}
		stateSet[n] = true
		stypes = append(stypes, fc.m.ltype[n])
	}
	sigma := "Unit"
	if len(stypes) > 0 {
		sigma = strings.Join(stypes, " × ")
	}
	nodes := []ast.Node{}
	if cond != nil {
		nodes = append(nodes, cond)
	}
	for _, st := range body {
		nodes = append(nodes, st)
	}
	used := fc.usedNames(nodes)
	var free []string
	for _, n := range fc.m.declOrder {
		if _, vis := fc.locals[n]; vis && used[n] && !stateSet[n] {
			free = append(free, n)
		}
	}
	fc.m.nloops++
	bname := fmt.Sprintf("%s_body%d", fc.m.lean, fc.m.nloops)
	var bparams, bargs []string
	for _, n := range free {
		bparams = append(bparams, fmt.Sprintf("(%s : %s)", fc.name(n), fc.m.ltype[n]))
		bargs = append(bargs, fc.name(n))
	}
	st0 := "()"
	if len(state) > 0 {
		var vs []string
		for _, n := range state {
			vs = append(vs, fc.name(n))
		}
		st0 = "(" + strings.Join(vs, ", ") + ")"
	}
	// ---- body definition ----
	savedLocals := copyMap(fc.locals)
	savedBody, savedState, savedSwitch, savedPre := fc.m.body, fc.m.state, fc.m.inSwitch, fc.m.pre
	savedFuel, savedJoin, savedInJoin := fc.m.fuelUsed, fc.m.join, fc.m.inJoin
	fc.m.body, fc.m.state, fc.m.inSwitch, fc.m.pre = true, state, 0, nil
	fc.m.fuelUsed, fc.m.join, fc.m.inJoin = false, nil, false
	var bb strings.Builder
	for k, n := range state {
		nn := fc.bump(n)
		fmt.Fprintf(&bb, "  let %s := %s\n", nn, proj(k, len(state)))
	}
	exit := ".brk " + fc.stateTuple()
	nconj := 0
	if cond != nil {
		for _, c := range splitAnd(cond) {
			e, err := fc.expr(c)
			if err != nil {
				return "", err
			}
			bb.WriteString(fc.flush(1))
			fmt.Fprintf(&bb, "  if %s then\n", e)
			nconj++
		}
	}
	btext, err := fc.mblock(body, 1)
	if err != nil {
		return "", err
	}
	for i := 0; i < nconj; i++ {
		btext += "\n  else\n  " + exit
	}
	fc.locals = savedLocals
	fc.m.body, fc.m.state, fc.m.inSwitch, fc.m.pre = savedBody, savedState, savedSwitch, savedPre
	innerFuel := fc.m.fuelUsed
	fc.m.fuelUsed, fc.m.join, fc.m.inJoin = true, savedJoin, savedInJoin
	_ = savedFuel
	if innerFuel {
		bparams = append([]string{"(fuel : Nat)"}, bparams...)
		bargs = append([]string{"fuel"}, bargs...)
	}
	fc.m.aux = append(fc.m.aux, fmt.Sprintf("/-- condition and body of `for cond` loop %d of %s (state: %s) -/\ndef %s %s (st : %s) : Gzx.GoM.Ctl (%s) (%s) :=\n%s%s\n",
		fc.m.nloops, fc.m.lean, strings.Join(state, ", "), bname, strings.Join(bparams, " "), sigma, sigma, fc.m.retType, bb.String(), btext))
	// ---- loop call and continuation ----
	then := "thenR"
	if fc.m.body {
		then = "thenC"
	}
	var sb strings.Builder
	sb.WriteString(fc.flush(lvl))
	call := bname
	if len(bargs) > 0 {
		call += " " + strings.Join(bargs, " ")
	}
	fmt.Fprintf(&sb, "%s(Gzx.GoM.whileLoop (%s) fuel %s).%s fun st =>\n", ind(lvl), call, st0, then)
	for k, n := range state {
		nn := fc.bump(n)
		fmt.Fprintf(&sb, "%slet %s := %s\n", ind(lvl), nn, proj(k, len(state)))
	}
	r, err := fc.mblock(rest, lvl)
	if err != nil {
		return "", err
	}
	return sb.String() + r, nil
}

// mcallStmt: a call as a statement — a translated method of a struct parameter (its written receiver fields are
// rebound), or the builtin `copy`.
func (fc *fnCtx) mcallStmt(call *ast.CallExpr, lvl int) (string, bool, error) {
	if recv, mi, ok := fc.methodCallee(call); ok {
		text, err := fc.methodCallText(recv, mi, call)
		if err != nil {
			return "", true, err
		}
		t := fc.bind(text)
		var sb strings.Builder
		sb.WriteString(fc.flush(lvl))
		total := mi.nres + len(mi.outs)
		for k, f := range mi.outs {
			key := recv + "_" + f
			if _, seen := fc.locals[key]; !seen {
				return "", true, fmt.Errorf("method %s writes %s, which is not a translated field", mi.lean, key)
			}
			pr := t
			if total > 1 {
				pr = t + strings.Repeat(".2", mi.nres+k)
				if mi.nres+k < total-1 {
					pr += ".1"
				}
			}
			nn := fc.bump(key)
			fmt.Fprintf(&sb, "%slet %s := %s\n", ind(lvl), nn, pr)
		}
		return sb.String(), true, nil
	}
	if id, ok := call.Fun.(*ast.Ident); ok && id.Name == "copy" && len(call.Args) == 2 {
		if _, isBuiltin := fc.p.TypesInfo.Uses[id].(*types.Builtin); !isBuiltin {
			return "", false, nil
		}
		needTie(fc.m.module)
		dst := call.Args[0]
		var lo, hi ast.Expr
		sliced := false
		if se, ok := dst.(*ast.SliceExpr); ok {
			if se.Slice3 {
				return "", true, fmt.Errorf("copy into a 3-index slice")
			}
			dst, lo, hi, sliced = se.X, se.Low, se.High, true
		}
		key, ok := fc.lvalueKey(dst)
		if !ok {
			return "", true, fmt.Errorf("copy into a non-local")
		}
		if _, ok := fc.locals[key]; !ok || fc.m.ltype[key] != "List Int" {
			return "", true, fmt.Errorf("copy into non-local slice %s", key)
		}
		if fc.isParam(key) && !fc.isOutVar(key) {
			return "", true, fmt.Errorf("copy into parameter %s (visible to the caller)", key)
		}
		src, err := fc.lexpr(call.Args[1])
		if err != nil {
			return "", true, err
		}
		cur := fc.name(key)
		var val string
		if sliced {
			los, his := "0", "(Gzx.GoM.len "+cur+")"
			if lo != nil {
				if los, err = fc.expr(lo); err != nil {
					return "", true, err
				}
			}
			if hi != nil {
				if his, err = fc.expr(hi); err != nil {
					return "", true, err
				}
			}
			val = fc.bind(fmt.Sprintf("Gzx.GoM.copySeg %s %s %s %s", cur, los, his, src))
		} else {
			val = fmt.Sprintf("(Gzx.GoM.copyL %s %s)", cur, src)
		}
		var sb strings.Builder
		sb.WriteString(fc.flush(lvl))
		nn := fc.bump(key)
		fmt.Fprintf(&sb, "%slet %s := %s\n", ind(lvl), nn, val)
		return sb.String(), true, nil
	}
	return "", false, nil
}

func (fc *fnCtx) mrange(x *ast.RangeStmt, rest []ast.Stmt, lvl int) (string, error) {
	if s, handled, err := fc.k01decRange(x, rest, lvl); handled { // wp k01dec: package-level table of integer rows
		return s, err
	}
	if s, handled, err := fc.k03wRange(x, rest, lvl); handled { // wp k03w (ext_k03w.go)
		return s, err
	}
	if x.Tok != token.DEFINE && (x.Key != nil || x.Value != nil) {
		return "", fmt.Errorf("range with assignment")
	}
	t := fc.p.TypesInfo.TypeOf(x.X)
	if _, ok := t.Underlying().(*types.Slice); !ok {
		if _, ok := t.Underlying().(*types.Array); !ok {
			return "", fmt.Errorf("range over %s (only slices of integers)", t)
		}
	}
	if lt, err := leanTypeM(t); err != nil || lt != "List Int" {
		return "", fmt.Errorf("range over %s", t)
	}
	xs, err := fc.lexpr(x.X)
	if err != nil {
		return "", err
	}
	if len(fc.m.pre) > 0 {
		return "", fmt.Errorf("checked operation in the range expression")
	}
	assigned, _, whole := assignedIn3(x.Body.List)
	if mentions(x.X, assigned) {
		// Go evaluates the range expression once: with no value variable only its length matters, and element
		// writes do not change it
		if name, viaElem := lvalName(x.X); x.Value != nil || name == "" || viaElem || whole[name] {
			return "", fmt.Errorf("range expression is modified by the loop body")
		}
	}
	ivar := ""
	if id, ok := x.Key.(*ast.Ident); ok && id.Name != "_" {
		ivar = id.Name
		if _, seen := fc.locals[ivar]; seen {
			return "", fmt.Errorf("loop variable shadows %s", ivar)
		}
	}
	var header func() (string, error)
	if id, ok := x.Value.(*ast.Ident); ok && id.Name != "_" {
		if _, seen := fc.locals[id.Name]; seen {
			return "", fmt.Errorf("loop variable shadows %s", id.Name)
		}
		header = func() (string, error) {
			iname := "i"
			if ivar != "" {
				iname = fc.name(ivar)
			}
			fc.declare(id.Name, "Int")
			return fmt.Sprintf("  Gzx.GoM.tryC (Gzx.GoM.idx %s %s) fun %s =>\n", xs, iname, fc.name(id.Name)), nil
		}
	}
	trip := fmt.Sprintf("(Gzx.GoM.tripUp 0 (Gzx.GoM.len %s) 1)", xs)
	return fc.loopCore(x.Body, []ast.Node{x.X}, ivar, header, "1", trip, "0", rest, lvl)
}

// ---------- entry points ----------

func newMCtx(p *packages.Package, module, lean string) *fnCtx {
	return &fnCtx{p: p, locals: map[string]int{}, structs: map[string]*types.Struct{}, fieldsUsed: map[string]string{},
		m: &mstate{ltype: map[string]string{}, tableSeen: map[string]bool{}, declSeen: map[string]bool{}, lean: lean, module: module}}
}

func genFuncM(p *packages.Package, e entry) (string, error) {
	fd := findFunc(p, e.name)
	if fd == nil || fd.Body == nil {
		return "", fmt.Errorf("function not found")
	}
	fc := newMCtx(p, e.module, e.lean)
	curFC = fc
	defer func() { curFC = nil }()
	fc.k11b2View(fd) // wp k11b2 (ext_k11b2.go): the Data Matrix mode loop as a view (BitSource parameter, the three result values)
	var fields []*ast.Field
	if fd.Recv != nil {
		fields = append(fields, fd.Recv.List...)
	}
	fields = append(fields, fd.Type.Params.List...)
	type sparam struct {
		name string
		st   *types.Struct
		at   int
		ptr  bool
	}
	var params []string
	var sparams []sparam
	nplain := 0
	if ferr := fc.dmxFlatten(fd); ferr != nil { // wp dmmirror (ext_dmmirror_flat.go): nested objects -> flat locals
		return "", ferr
	}
	fc.k11bPrepare(fd) // wp k11b (ext_k11b.go): AST pre-pass, abstract parameters
	fc.k11b2Prepare(fd) // wp k11b2 (ext_k11b2.go): AST pre-pass, shadowing locals renamed
	params, gerr := fc.dmxGlobals(fd, params) // wp dmmirror: init-filled package-level tables are leading parameters
	if gerr != nil {
		return "", gerr
	}
	for _, fl := range fields {
		t := p.TypesInfo.TypeOf(fl.Type)
		lt, err := leanTypeM(t)
		if err != nil {
			if st := structOf(t); st != nil {
				_, isPtr := t.Underlying().(*types.Pointer)
				for _, n := range fl.Names {
					fc.structs[n.Name] = st
					sparams = append(sparams, sparam{n.Name, st, len(params), isPtr})
					// the fields are locals of the translation (a write rebinds them, SSA style)
					for j := 0; j < st.NumFields(); j++ {
						if flt, err := leanTypeM(st.Field(j).Type()); err == nil {
							fc.declare(n.Name+"_"+st.Field(j).Name(), flt)
						} else if flt, ok := fc.dmxFieldType(st, j); ok { // wp dmmirror
							fc.declare(n.Name+"_"+st.Field(j).Name(), flt)
						}
					}
					if isPtr {
						fc.declare(n.Name+"_isNil", "Bool") // `x == nil`
					}
					fc.dmxFlatParams(n.Name) // wp dmmirror: nested structs / slices of structs below this parameter
				}
				continue
			}
			if k03wSkipParam(fc, fd, fl) { // wp k03w: an unused parameter of map / interface type is dropped
				continue
			}
			return "", err
		}
		for _, n := range fl.Names {
			if n.Name == "_" {
				return "", fmt.Errorf("blank parameter")
			}
			params = append(params, fmt.Sprintf("(%s : %s)", leanIdent(n.Name), lt))
			fc.declare(n.Name, lt)
			fc.paramNames = append(fc.paramNames, n.Name)
			nplain++
		}
	}
	fc.paramNames = k03wParamNames(fc, fd, fc.paramNames) // wp k03w: string parameters are values (locals of the translation)
	// tie mode: the function works on slice-typed state of a struct parameter (or writes through a pointer)
	for key, lt := range fc.usedFieldTypes(fd.Body) {
		if lt == "List Int" {
			fc.m.tie = true
		}
		_ = key
	}
	// what the function writes through its pointer parameters is part of its result
	assigned0, _ := assignedIn(fd.Body.List)
	var outTypes []string
	outTypes = fc.dmxInitOuts(outTypes) // wp dmmirror: `init` returns the tables it fills
	for _, sp := range sparams {
		for j := 0; j < sp.st.NumFields(); j++ {
			key := sp.name + "_" + sp.st.Field(j).Name()
			if assigned0[key] {
				if !sp.ptr {
					return "", fmt.Errorf("write to a field of value parameter %s", sp.name)
				}
				lt, err := leanTypeM(sp.st.Field(j).Type())
				if err != nil {
					return "", fmt.Errorf("write to field %s: %v", key, err)
				}
				fc.m.outVars = append(fc.m.outVars, key)
				outTypes = append(outTypes, lt)
				fc.fieldsUsed[key] = lt
			}
		}
	}
	for _, n := range fc.paramNames {
		if assigned0[n] && isListLT(fc.m.ltype[n]) {
			fc.m.outVars = append(fc.m.outVars, n)
			outTypes = append(outTypes, fc.m.ltype[n])
		}
	}
	fc.m.outVars, outTypes = k03wOuts(fc, fd, fc.m.outVars, outTypes) // wp k03w: string parameters are values
	outTypes = fc.k01dec2MatrixOuts(assigned0, outTypes) // wp k01dec2 (ext_k01dec2.go): a *BitMatrix PARAMETER mutated by Flip / SetRegion is returned
	if len(fc.m.outVars) > 0 {
		fc.m.tie = true
	}
	var resList []*ast.Field
	if fd.Type.Results != nil {
		resList = fd.Type.Results.List
	}
	if len(resList) == 0 {
		if len(fc.m.outVars) == 0 {
			return "", fmt.Errorf("no result")
		}
		fc.m.void = true
	}
	var rts []string
	var named []*ast.Ident
	for _, fl := range resList {
		t := p.TypesInfo.TypeOf(fl.Type)
		lt, err := leanTypeM(t)
		drop := false
		fc.dmxNoteResult(t, len(fl.Names)) // wp dmmirror
		if lts, ok := fc.dmxResultTypes(t); ok && err != nil && len(fl.Names) <= 1 { // wp dmmirror: []struct as its field lists
			fc.m.dropRes = append(fc.m.dropRes, false)
			rts = append(rts, lts...)
			named = append(named, fl.Names...)
			continue
		}
		if err != nil {
			if t.String() == "error" || isErrorType(t) {
				lt = "Bool"
			} else if _, isPtr := t.Underlying().(*types.Pointer); isPtr {
				drop = true
				if st := structOf(t); st != nil && len(fl.Names) <= 1 {
					if _, fts, okf := structFields(st); okf && fc.structResultOK(fd, len(fc.m.dropRes)) {
						// *T returned as the fields of T (a struct parameter or a composite literal in every return)
						if fc.m.structRes == nil {
							fc.m.structRes = map[int]*types.Struct{}
						}
						fc.m.structRes[len(fc.m.dropRes)] = st
						fc.m.dropRes = append(fc.m.dropRes, false)
						rts = append(rts, fts...)
						named = append(named, fl.Names...)
						continue
					}
				}
			} else {
				return "", err
			}
		}
		n := len(fl.Names)
		if n == 0 {
			n = 1
		}
		named = append(named, fl.Names...)
		for i := 0; i < n; i++ {
			fc.m.dropRes = append(fc.m.dropRes, drop)
			if !drop {
				rts = append(rts, lt)
			}
		}
	}
	// a struct parameter that is returned: its fields are already part of the result
	if len(fc.m.structRes) > 0 {
		retParams := map[string]bool{}
		ast.Inspect(fd.Body, func(n ast.Node) bool {
			if rs, ok := n.(*ast.ReturnStmt); ok {
				for ri, r := range rs.Results {
					if fc.m.structRes[ri] != nil {
						if id, ok := r.(*ast.Ident); ok {
							retParams[id.Name] = true
						}
					}
				}
			}
			return true
		})
		var keep, keepT []string
		for i, o := range fc.m.outVars {
			covered := false
			for rp := range retParams {
				if strings.HasPrefix(o, rp+"_") && !fc.isParam(o) {
					covered = true
				}
			}
			if !covered {
				keep = append(keep, o)
				keepT = append(keepT, outTypes[i])
			}
		}
		fc.m.outVars, outTypes = keep, keepT
	}
	if len(named) > 0 {
		return "", fmt.Errorf("named results")
	}
	fc.m.resTypes = append([]string{}, rts...)
	nres := len(rts)
	rts = append(rts, outTypes...)
	if len(rts) == 0 {
		return "", fmt.Errorf("no translatable result")
	}
	fc.m.retType = strings.Join(rts, " × ")
	fc.dmxScanTracked(fd) // wp dmmirror: locals whose capacity the function observes
	body, err := fc.mblock(fd.Body.List, 1)
	if err != nil {
		return "", err
	}
	body = fc.dmxBody(body)
	var recvFields []string
	for i := len(sparams) - 1; i >= 0; i-- {
		sp := sparams[i]
		var fps []string
		for j := 0; j < sp.st.NumFields(); j++ {
			key := sp.name + "_" + sp.st.Field(j).Name()
			if lt, ok := fc.fieldsUsed[key]; ok {
				fps = append(fps, fmt.Sprintf("(%s : %s)", key, lt))
				if i == 0 {
					recvFields = append(recvFields, sp.st.Field(j).Name())
				}
			}
		}
		if _, ok := fc.fieldsUsed[sp.name+"_isNil"]; ok {
			fps = append([]string{fmt.Sprintf("(%s_isNil : Bool)", sp.name)}, fps...)
		}
		params = append(params[:sp.at], append(fps, params[sp.at:]...)...)
	}
	params, nerr := fc.dmxNestedParams(fd, params) // wp dmmirror
	if nerr != nil {
		return "", nerr
	}
	params = fc.k11bParams(params) // wp k11b (ext_k11b.go)
	params = fc.k03wGlobalParams(params) // wp k03w: run-time filled package-level tables read by the body
	params = fc.k11b2Params(params) // wp k11b2 (ext_k11b2.go): abstract parameters of the Aztec high-level decoder
	if fc.m.fuelUsed {
		params = append([]string{"(fuel : Nat)"}, params...)
	}
	if fd.Recv == nil && len(sparams) == 0 && len(fc.m.structRes) == 1 && len(fc.m.dropRes) == 1 && !fc.m.fuelUsed {
		fns, _, _ := structFields(fc.m.structRes[0])
		ctorCallees[e.module+"|"+e.pkg+"."+e.name] = ctorInfo{lean: e.lean, nplain: nplain, fields: fns}
	}
	if len(sparams) == 0 && !fc.m.fuelUsed && len(fc.m.outVars) == 0 {
		callees[e.module+"|"+e.pkg+"."+e.name] = calleeInfo{lean: e.lean, nparams: nplain, nres: len(rts)}
	}
	if fd.Recv != nil && len(sparams) == 1 && sparams[0].at == 0 {
		// a method whose only struct parameter is its receiver: callable from kernels translated later
		var outs []string
		plainOut := false
		for _, o := range fc.m.outVars {
			if strings.HasPrefix(o, sparams[0].name+"_") && !fc.isParam(o) {
				outs = append(outs, strings.TrimPrefix(o, sparams[0].name+"_"))
			} else {
				plainOut = true
			}
		}
		if !plainOut {
			methodCallees[e.module+"|"+e.pkg+"."+e.name] = methodInfo{lean: e.lean, fields: recvFields, nplain: nplain, nres: nres,
				outs: outs, fuel: fc.m.fuelUsed}
		}
	}
	extRegister(e, fd, fc, nres) // ext_k17k20.go
	fc.dmxRegister(e, fd, nres) // wp dmmirror: callable with struct arguments / init tables / fuel
	return fc.k03wThread(fc.emit(e.pkg+"."+e.name, params, body)), nil // wp k03w: loop bodies take the run-time tables too
}

func (fc *fnCtx) emit(goName string, params []string, body string) string {
	var sb strings.Builder
	for ln := range fc.m.tableSeen {
		moduleTables[fc.m.module+"|"+ln] = true
	}
	for _, t := range fc.m.tables {
		sb.WriteString(t)
		sb.WriteString("\n")
	}
	for _, a := range fc.m.aux {
		sb.WriteString(a)
		sb.WriteString("\n")
	}
	fmt.Fprintf(&sb, "/-- translated from %s -/\ndef %s %s : Gzx.Res (%s) :=\n%s\n", goName, fc.m.lean, strings.Join(params, " "), fc.m.retType, body)
	return sb.String()
}

// genRegion: <GoFunc>@<first>..<last>><out1>,<out2>
func genRegion(p *packages.Package, e entry) (string, error) {
	at := strings.Index(e.name, "@")
	gt := strings.Index(e.name, ">")
	if at < 0 || gt < at {
		return "", fmt.Errorf("bad region spec")
	}
	fname, rng, outs := e.name[:at], e.name[at+1:gt], strings.Split(e.name[gt+1:], ",")
	fl := strings.Split(rng, "..")
	if len(fl) != 2 {
		return "", fmt.Errorf("bad region spec")
	}
	fd := findFunc(p, fname)
	if fd == nil || fd.Body == nil {
		return "", fmt.Errorf("function not found")
	}
	stmts := fd.Body.List
	if is, handled, err := extRegionCond(e, fd, rng); handled { // ext_k17k20.go: `F@if:<k>>`
		if err != nil {
			return "", err
		}
		return extGenCond(p, e, fd, fname, rng, is)
	}
	d0, d1 := 0, 0
	fl[0], d0 = extRegionOffsets(fl[0]) // ext_k17k20.go: `name+k`
	fl[1], d1 = extRegionOffsets(fl[1])
	first, last := -1, -1
	for i, st := range stmts {
		_, declared := assignedIn([]ast.Stmt{st})
		if _, isIf := st.(*ast.IfStmt); isIf {
			declared = map[string]bool{}
		}
		if _, isFor := st.(*ast.ForStmt); isFor {
			declared = map[string]bool{}
		}
		if first < 0 && declared[fl[0]] {
			first = i
		}
		assigned, declared2 := assignedIn([]ast.Stmt{st})
		if first >= 0 && (assigned[fl[1]] || declared2[fl[1]]) {
			last = i
		}
	}
	if fl[0] == "^" {
		first = 0
		for i, st := range stmts {
			a, d := assignedIn([]ast.Stmt{st})
			if a[fl[1]] || d[fl[1]] {
				last = i
			}
		}
	}
	toReturn := fl[1] == "return"
	if toReturn {
		last = len(stmts) - 1
		if _, ok := stmts[last].(*ast.ReturnStmt); !ok {
			return "", fmt.Errorf("function does not end in a return")
		}
	}
	if first >= 0 && last >= 0 && !toReturn {
		first, last = first+d0, last+d1
		if last >= len(stmts) {
			return "", fmt.Errorf("region %s not found", rng)
		}
	}
	if first < 0 || last < first {
		return "", fmt.Errorf("region %s not found", rng)
	}
	region := stmts[first : last+1]
	fc := newMCtx(p, e.module, e.lean)
	fc.m.region = true
	// free variables: objects declared in the function outside the region and used inside it
	lo, hi := region[0].Pos(), region[len(region)-1].End()
	type fv struct {
		obj *types.Var
	}
	seen := map[*types.Var]bool{}
	var fvs []*types.Var
	for _, st := range region {
		ast.Inspect(st, func(n ast.Node) bool {
			if id, ok := n.(*ast.Ident); ok {
				if obj, ok := p.TypesInfo.Uses[id].(*types.Var); ok && !obj.IsField() && obj.Pkg() != nil && obj.Parent() != obj.Pkg().Scope() {
					if (obj.Pos() < lo || obj.Pos() >= hi) && !seen[obj] {
						seen[obj] = true
						fvs = append(fvs, obj)
					}
				}
			}
			return true
		})
	}
	sort.Slice(fvs, func(i, j int) bool { return fvs[i].Pos() < fvs[j].Pos() })
	var params []string
	type sparam struct {
		name string
		st   *types.Struct
		at   int
	}
	var sparams []sparam
	for _, obj := range fvs {
		lt, err := leanTypeM(obj.Type())
		if err != nil {
			if st := structOf(obj.Type()); st != nil {
				fc.structs[obj.Name()] = st
				sparams = append(sparams, sparam{obj.Name(), st, len(params)})
			}
			continue // other objects: only allowed in skipped statements; a real use fails as a free identifier
		}
		params = append(params, fmt.Sprintf("(%s : %s)", obj.Name(), lt))
		fc.declare(obj.Name(), lt)
		fc.paramNames = append(fc.paramNames, obj.Name())
	}
	params = append(params, fc.extPrescanRegion(region, outs)...) // ext_k17k20.go
	if regionFields[fc.m] {
		curFC = fc
		defer func() { curFC = nil }()
	}
	// result: the outs (types discovered after translation) -> translate with a synthetic return
	ret := &ast.ReturnStmt{}
	for _, o := range outs {
		ret.Results = append(ret.Results, &ast.Ident{Name: o})
	}
	// result type: look the outs up among the region's declared / free variables
	var rts []string
	if toReturn {
		outs = nil
	}
	for _, o := range outs {
		lt := ""
		for _, st := range region {
			ast.Inspect(st, func(n ast.Node) bool {
				if id, ok := n.(*ast.Ident); ok && id.Name == o && lt == "" {
					if obj := p.TypesInfo.ObjectOf(id); obj != nil {
						if t, err := leanTypeM(obj.Type()); err == nil {
							lt = t
						}
					}
				}
				return true
			})
		}
		if l2, ok := fc.m.ltype[o]; ok && lt == "" { // ext_k17k20.go: a struct-field local / the `if:` condition
			lt = l2
		}
		if lt == "" {
			return "", fmt.Errorf("region output %s not found", o)
		}
		rts = append(rts, lt)
	}
	fc.m.retType = strings.Join(rts, " × ")
	var body string
	var err error
	if toReturn {
		rts = nil
		for _, fl := range fd.Type.Results.List {
			lt, err := leanTypeM(p.TypesInfo.TypeOf(fl.Type))
			if err != nil {
				if isErrorType(p.TypesInfo.TypeOf(fl.Type)) {
					lt = "Bool"
				} else {
					return "", err
				}
			}
			rts = append(rts, lt)
		}
		fc.m.retType = strings.Join(rts, " × ")
		body, err = fc.mblock(region, 1)
	} else {
		body, err = fc.mblock(append(append([]ast.Stmt{}, region...), ret), 1)
	}
	if err != nil {
		return "", err
	}
	for i := len(sparams) - 1; i >= 0; i-- {
		sp := sparams[i]
		var fps []string
		for j := 0; j < sp.st.NumFields(); j++ {
			key := sp.name + "_" + sp.st.Field(j).Name()
			if lt, ok := fc.fieldsUsed[key]; ok {
				fps = append(fps, fmt.Sprintf("(%s : %s)", key, lt))
			}
		}
		params = append(params[:sp.at], append(fps, params[sp.at:]...)...)
	}
	params = fc.k01dec2RegionFuel(params) // wp k01dec2 (ext_k01dec2.go): a region with a `for cond` loop / fuelled callee takes `(fuel : Nat)`
	return fc.emit(e.pkg+"."+fname+" (statements "+rng+")", params, body), nil
}
